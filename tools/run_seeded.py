#!/venv/bin/python
"""tools/run_seeded.py [names...] [--all-checks] [--scratch]: apply each seeded change to /repo (git apply), run the quick
check of its property (or every check), record the outcome in seeded/<name>/meta.json, and undo the change straight
afterwards.  --scratch: apply the patch to a scratch copy of /repo/src under /tmp instead (removed afterwards) and point
the checks at it through VERIF_REPO_SRC - same checks, but background runs that read /repo are not disturbed."""
import json, os, shutil, subprocess, sys, time
V = "/verif"
names = [a for a in sys.argv[1:] if not a.startswith("--")] or sorted(os.listdir(os.path.join(V, "seeded")))
ALL = ["C%02d" % i for i in list(range(1, 16)) + [19]]
for name in names:
    d = os.path.join(V, "seeded", name)
    if not os.path.exists(os.path.join(d, "patch.diff")):
        continue
    agent = json.load(open(os.path.join(d, "agent_meta.json"))) if os.path.exists(os.path.join(d, "agent_meta.json")) else {}
    prop = agent.get("property") or name.split("-")[-1]
    scratch = "--scratch" in sys.argv
    env = dict(os.environ)
    if scratch:
        sd = "/tmp/seeded-src-%d" % os.getpid()
        shutil.rmtree(sd, ignore_errors=True)
        shutil.copytree("/repo/src", sd + "/src", ignore=shutil.ignore_patterns("__pycache__"))
        subprocess.check_call(["patch", "-s", "-p1", "-d", sd, "-i", os.path.join(d, "patch.diff")])
        env["VERIF_REPO_SRC"] = sd + "/src"
    else:
        assert subprocess.run(["git", "-C", "/repo", "status", "--porcelain", "--untracked-files=no"], capture_output=True, text=True).stdout.strip() == "", "/repo not clean"
        subprocess.check_call(["git", "-C", "/repo", "apply", os.path.join(d, "patch.diff")])
    results = {}
    try:
        for p in (ALL if "--all-checks" in sys.argv else [prop]):
            t0 = time.time()
            r = subprocess.run([os.path.join(V, "bin", "check"), p, "--tier", "quick", "--no-evidence"], capture_output=True, text=True, timeout=1800, env=env)
            sigs = [l.strip() for l in r.stdout.splitlines() if l.strip().startswith("clause=")]
            results[p] = {"exit": r.returncode, "violations": sigs[:4], "wall_s": round(time.time() - t0, 1)}
            print(name, p, "exit", r.returncode, sigs[:1], flush=True)
    finally:
        if scratch:
            shutil.rmtree(sd, ignore_errors=True)
        else:
            subprocess.check_call(["git", "-C", "/repo", "checkout", "--", "."])
    conf = open(os.path.join(d, ".confirm")).read().strip().split("|") if os.path.exists(os.path.join(d, ".confirm")) else ["?", "?", "?"]
    mp = os.path.join(d, "meta.json")
    meta = json.load(open(mp)) if os.path.exists(mp) else {}
    meta.update({
        "property": prop, "origin": "written by a fresh sub-agent that saw only the property text and its own worktree",
        "summary": agent.get("summary"), "needs_to_manifest": agent.get("needs"), "files": agent.get("files"),
        "confirmed_by_me": {"pinned_test_suite_with_change": conf[0], "demo_exit_with_change": conf[1], "demo_exit_without_change": conf[2],
                            "how": "tools/confirm_seeded.sh in the agent's scratch worktree (PYTHONPATH=<worktree>/src)"},
    })
    meta.setdefault("checks", {}).update(results)
    meta["caught_by"] = sorted(p for p, r in meta["checks"].items() if r["exit"] == 1)
    meta["what_i_ran"] = ("scratch copy of /repo/src + seeded/%s/patch.diff via VERIF_REPO_SRC; bin/check <ID> --tier quick --no-evidence" % name) if scratch else (
        "git -C /repo apply seeded/%s/patch.diff; bin/check <ID> --tier quick --no-evidence; git -C /repo checkout -- ." % name)
    json.dump(meta, open(mp, "w"), indent=1)

#!/venv/bin/python
"""tools/seeded_table.py: regenerate the table of sub-agent changes in DESIGN.md (section 12) from seeded/*/meta.json.
Rows between the table header and the first line that is not a table row are replaced; the count in the sentence above
the table is updated."""
import json, os, re
V = os.path.dirname(os.path.dirname(os.path.abspath(__file__)))


def short(s, n):
    s = " ".join(str(s or "").split()).replace("|", "/")
    return s if len(s) <= n else s[:n] + "…"


rows = []
names = sorted(os.listdir(os.path.join(V, "seeded")))
caught = 0
outside = []
for name in names:
    mp = os.path.join(V, "seeded", name, "meta.json")
    if not os.path.exists(mp):
        continue
    m = json.load(open(mp))
    by = m.get("caught_by") or []
    if by:
        caught += 1
    elif m.get("note_by_me"):
        outside.append(name)
    cells = []
    for p in by:
        sigs = m["checks"][p].get("violations") or []
        sig = sigs[0] if sigs else ""
        mm = re.search(r"sig=(\S+)", sig)
        how = "history replay" if "history replay" in sig else "case replay"
        cells.append("%s — `%s` (%s)" % (p, mm.group(1) if mm else "?", how))
    rows.append("| %s | %s | %s | %s | %s |" % (name, m.get("property"), short(m.get("summary"), 230), short(m.get("needs_to_manifest"), 170),
                                                  "; ".join(cells) or ("**not caught** - " + short(m.get("note_by_me", ""), 260))))
d = open(os.path.join(V, "DESIGN.md")).read().split("\n")
h = next(i for i, ln in enumerate(d) if ln.startswith("| id | prop | change"))
e = h + 2
while e < len(d) and d[e].startswith("| S"):
    e += 1
d[h + 2:e] = rows
txt = "\n".join(d)
txt = re.sub(r"\*\*\d+ of \d+ sub-agent changes are caught", "**%d of %d sub-agent changes are caught" % (caught, len(rows)), txt)
open(os.path.join(V, "DESIGN.md"), "w").write(txt)
print(caught, "of", len(rows), "not caught:", outside)

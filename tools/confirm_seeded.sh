#!/bin/sh
# tools/confirm_seeded.sh <worktree> <prop> <name>: confirm an agent-written change myself and archive it under /verif/seeded/<name>/
# (pinned suite with the change; the demonstration with and without the change - switched with git apply -R / git apply, never
# git stash, which is shared between the worktrees of one repository)
WT=$1; PROP=$2; NAME=$3
OUT=/verif/seeded/$NAME
mkdir -p $OUT
cd $WT || exit 1
git diff -- src > $OUT/patch.diff
test -s $OUT/patch.diff || { echo "$NAME: empty diff"; exit 1; }
cp MUTANT/demo.py $OUT/demo.py
T=$(PYTHONPATH=$WT/src /venv/bin/python -m pytest -q -p no:cacheprovider -n 16 --timeout=900 --continue-on-collection-errors 2>&1 | tail -1)
PYTHONPATH=$WT/src PYTHONDONTWRITEBYTECODE=1 /venv/bin/python MUTANT/demo.py > $OUT/demo_with_change.txt 2>&1; D1=$?
git apply -R $OUT/patch.diff || exit 1
PYTHONPATH=$WT/src PYTHONDONTWRITEBYTECODE=1 /venv/bin/python MUTANT/demo.py > /dev/null 2>&1; D0=$?
git apply $OUT/patch.diff || exit 1
echo "$NAME tests: $T ; demo with change exit=$D1 ; demo without exit=$D0"
cp MUTANT/meta.json $OUT/agent_meta.json
echo "$T|$D1|$D0" > $OUT/.confirm

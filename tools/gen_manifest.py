#!/venv/bin/python
"""Writes MANIFEST.json from the table below (kept in one place so it stays valid)."""
import json, os, sys
V = os.path.dirname(os.path.dirname(os.path.abspath(__file__)))
sys.path.insert(0, V)

CHECKS = {
 "C01": ("exploration", "6", "Seeded simulation: every root type and every command code x framing swept once, then seeded sampling with swarm knobs; the strict decode recorded by the simulator is compared item by item with an independent reference interpreter over a pinned layout snapshot, and the text form of every valid value with the pinned text forms; 10% of the runs decode under a caller-chosen root path, 5% pass a stray command_code / parameter_encryption argument, 0.4% re-decode in a fresh interpreter started with -O; rare magnitudes (4-33 kB buffers, 300-element lists), captures that start with GetCapability / StartAuthSession exchanges, scenario captures whose values are related across messages (NV index defined / written / read, handles returned and used later), user-declared layouts incl. parallel arrays and counted session lists; C01.H: the decode again in OS threads of a fresh interpreter under a seeded line-level schedule. Sampling, not proof: values and sizes are sampled, the structural space (types, union arms, command x configuration) is swept and reported by counters.",
         "seeded traffic generator + reference-model refinement over the recorded history (deterministic simulation; scheduler / source kind as perturbations)"),
 "C02": ("exploration", "6", "Same runs as C01 plus warn-mode runs with value-only faults; the re-encoder runs as a lazy consumer task of the decoder; chunks are compared with the input slices at the reference offsets.",
         "seeded traffic + value faults; re-encoder as consumer stage; reference offsets"),
 "C03": ("fault_enumeration", "6", "Every size-field kind (commandSize, responseSize, authSize, parameterSize, TPM2B sizes at depth 0..5 incl. synthetic nested layouts) perturbed by -k/+k/0/max/random; the reference model decodes the perturbed bytes and yields the set of admissible reports; class, details and emitted events must match one of them; sizes also take the value of another size / count field or end exactly at a later field or are off by count x size-of-one-element for lists of differently sized elements (relations between fields); cooperating faults: one field overrunning two, three or more nested regions by different amounts.",
         "medium fault injection on stored size fields + reference-model oracle with admissible-report sets"),
 "C04": ("fault_enumeration", "6", "Every constrained leaf kind replaced by values just outside / far outside / on the boundary of its allowed set, single and double faults, also the number a neighbouring field holds; lone responses decoded with a reserved number as command_code argument (table gaps, one higher bit set); raise-iff, path/type/value, probed allowed set and emitted events are compared with the reference model.",
         "medium fault injection on stored values + reference-model oracle"),
 "C05": ("fault_enumeration", "6", "Crash points: truncation at every kind of instant of the decoder state (0, 1, header, field boundaries, nested buffers, session area, len-1) and appended suffixes, for all root types incl. empty encodings and streams, also MB-sized surplus through unsized sources; class, command code, surplus bytes and emitted events compared with the reference model.",
         "crash-point (EOF / surplus) injection + reference-model oracle"),
 "C06": ("exploration", "6", "Random bytes, multi-fault mutated messages (whole medium and history catalogue), wrong-type and wrong-flag decodes over all root types / command codes through a counting source, captures of 1000-2500 tiny exchanges, 4-33 kB buffers; only the class of the outcome, the pull bound and termination are judged.",
         "seeded fault-sequence search; outcome-class oracle, pull counter, step cap / watchdog"),
 "C13": ("fault_enumeration", "6", "Strict rejections from the C03/C04 fault enumeration with the fault at any position incl. the final field and the input cut exactly at the problem, faults aligned to 4096/8192/16384-byte block boundaries, nested chains (one field overrunning several regions), 20-131 kB of unconsumed input behind the problem through generator / list / file sources; remaining-bytes attribute compared with the reference suffix.",
         "medium faults + crash point at the fault + reference-model byte accounting"),
 "C07": ("exploration", "6", "Purely differential: the same bytes (well-formed, size/value/length/history faults, random) are decoded by a strict task and a warn task of the same simulated run; prefixes up to the first problem and the error details (snapshotted at emission) must agree.",
         "two-task differential simulation over fault-injected inputs"),
 "C08": ("fault_enumeration", "6", "Warn-mode decodes of single- and multi-fault inputs (all size-field kinds, values, truncation/surplus, message loss/duplication/reordering, random bytes): nothing may escape except a justified ValueConstraintViolatedError; a model-light candidate-set tiling checker verifies that the emitted fields tile the input with skips exactly to the ends the reported size fields declare and that no field's bytes come from behind a declared end; value-only faults are compared with the reference model's lenient walk; a warning about a union (selector without member) is itself a violation; fault families: nested pairs, nested chains, straddles, beyond-enclosing, far sizes with filler beyond 64 KiB, invalid selector + region ending right there.",
         "fault-sequence injection + tiling invariant over the recorded event history + lenient reference walk"),
 "C09": ("exploration", "6", "Generated conversations (all command codes, sessions, encryption, failed responses, trailing command) decoded as one stream and message by message (command code / flag from the generator) as tasks of one run; events, objects and message boundaries (pull counts) compared; twin responses, capability / StartAuthSession preambles with coherent handles, scenario captures; 10% of the runs in warn mode with out-of-range values (e.g. a bad tag on a later command) that leave boundaries alone; a stream kept from early in the worker's life is re-checked message by message much later (C09.d).",
         "history-based simulation: stream task vs per-message tasks; pull-count boundary invariant"),
 "C10": ("exploration", "6", "Per-event look-ahead invariant checked from the simulator-owned pull counter while the run proceeds (binary source, hex and swtpm-log character sources, short-read files); prefix stability at crash points; equality across 9 source kinds, short-read and text-mode files, multi-file streams, a live source (a bytearray that keeps growing while it is decoded) and the pcapng front-end; run 0 decodes a capture of more than 2 MiB (4 and 8 MiB in the thorough tier) in a worker process of its own, checked event by event while it proceeds.",
         "byte-source seam with pull counting, crash points, source-kind swarm"),
 "C11": ("exploration", "6", "Decoder object vs events_to_obj, obj_to_events of both vs decoded events (==, lengths, value classes), re-encoding, Canonical facade, on swept and sampled well-formed inputs biased to absent parts, with bystander decodes in between; events / objects of messages decoded many runs earlier in the same process are converted again later (decode now, convert later).",
         "seeded traffic + round-trip oracles inside scheduled runs"),
 "C12": ("exploration", "6", "2-4 decode tasks per run over messages with encrypted parameter areas of different commands, histories A,B,A / A,A / A,B,C,A and step-wise interleavings incl. pre-emption inside a byte pull and cancelled bystanders; every decode is compared (==, type identity) with solo decodes of the same arguments at the start and the end of the run and with stream slices; bystanders request parameter encryption on arbitrary commands; long-lived probe messages decoded when a worker process starts are re-decoded hundreds of runs later and compared with the results kept since then (C12.e); the same arguments are decoded in a fresh interpreter (plain and -O) and compared (C12.f); A,B,A histories over capture containers; calls into other public helpers of the library as bystanders; warn-mode decodes of malformed inputs; attribute words of different types holding the same number and two root paths that print identically, each decode compared with an interpreter of its own; C12.g: the synthesized parameter-area type used as the root type of a decode of its own must come back as the very same type; C12.H: the decodes of a run concurrently in OS threads of a fresh interpreter, the baton changing hands at seeded line events inside the library (sys.settrace).",
         "seeded scheduler over generator tasks sharing process-global state (the property the scheduler exists for)"),
 "C14": ("exploration", "6", "Printers run as lazy consumer tasks over strict and warn decodes of all input families; rows are parsed by tokens and matched against rows derived independently from the recorded events (one row per structure/primitive/warning, one per byte buffer, bit rows, depth, hex column, text form against the pinned text forms; a list without element events must keep its own row; the events printer yields one line per event naming its path; captures of more than 65536 events; a second printer pipeline interleaved, also two captures of failed responses printed row by row in turn; C14.h: the recorded events printed again alone must give the same rows).",
         "consumer-stage simulation over fault-injected event streams; token-level row oracle"),
 "C15": ("exploration", "6", "Generated streams rendered into hex / swtpm-log / pcapng containers by independent writers with seeded noise (interleaved control channel, runt packets, mssim trailer, Ethernet/raw-IP), container faults (torn pair, non-hex incl. int()-syntax characters, lower case), malformed traffic (size / length / medium faults on individual messages) inside well-formed containers, long captures, texts torn at block multiples, section markers aligned to 64 KiB, pcapng with ACK-only segments / two directions / retransmitted segments / clock steps / long comments / host addresses that read like another layer's type field, small-alphabet strings for the hex scanner; front-end vs direct decode; Auto vs matching front-end; ValueError for non-hex text.",
         "container writer noise + torn/garbled storage faults; independent reference readers"),
 "C19": ("exploration", "6", "CLI invocations in-process (patched argv/stdin with short reads/stdout, real temp files, multi-file streams) compared with library results for the same bytes; refusals; `type` against a strict decode under every type; `example` blocks re-decoded; a quota re-run as real subprocesses to validate the harness; input through named pipes and /dev/stdin; pieces that are empty or start like another file format; the same path several times on the command line; refusals of misspelled names and of identifiers that are not names; hex files that start with what editors leave behind (byte order marks, 0x, comment lines) must be rejected like the library rejects them; `example` for every command and type name over seeded subsets of the bundled captures.",
         "process-I/O seam simulation (argv, files, stdin short reads, stdout, exit status) + differential oracle"),
}
LEVEL_NOTE = ("Trusted base: the reference interpreter (sim/model.py) and the pinned layout snapshot (layout/tpm20_layout.json, "
              "extracted once from f0740e3 and audited by membership probing), the generator self-check (tree items == "
              "reference decode on every run), CPython. Sampling, not proof.")
NA = {
 "C16": "pure function of (type, integer) over finite domains: no stream, state, schedule, fault or history to simulate; deciding it is value enumeration, not simulation",
 "C17": "static fact about 12 mask tables plus a pure accessor; nothing to schedule or fault",
 "C18": "pure function of a 32-bit integer, exhaustively enumerable (4096 patterns); not a simulation target",
 "C20": "finite static comparison of layout tables; exhaustive enumeration of a configuration space (model-checking territory), no schedule/fault/history dependence",
}

def main():
    present = sorted(f[:-3] for f in os.listdir(os.path.join(V, "sim", "props")) if f.startswith("C") and f.endswith(".py"))
    checks = []
    for pid in present:
        if pid not in CHECKS:
            continue
        cat, ref, text, tech = CHECKS[pid]
        checks.append({
            "property_id": pid,
            "quick_cmd": "bin/check %s --tier quick" % pid,
            "thorough_cmd": "bin/check %s --tier thorough" % pid,
            "evidence_file": "/verif/evidence/%s.json" % pid,
            "replay_cmd_template": "bin/check %s --replay {path}" % pid,
            "engine": "detsim",
            "level_claimed": {"category": cat, "text": text, "design_ref": "DESIGN.md section %s (%s)" % (ref, pid)},
            "level_note": LEVEL_NOTE,
            "technique": "deterministic simulation with fault injection: " + tech,
        })
    all_ids = ["C%02d" % i for i in range(1, 21)]
    na = [{"property_id": p, "reason": NA[p]} for p in all_ids if p in NA]
    for p in all_ids:
        if p not in NA and p not in [c["property_id"] for c in checks]:
            na.append({"property_id": p, "reason": "check not built yet (claimed in DESIGN.md; will be added)"})
    m = {
        "version": 1,
        "setup_cmd": "bin/setup",
        "hooks": {"guard": "TPMSTREAM_VERIF", "enable": "no hook in /repo is needed: checks import tpmstream from /repo/src (VERIF_REPO_SRC) and use the seams the code already has (buffer iterable, generator stepping, file objects, sys.argv/stdin/stdout); bin/check exports TPMSTREAM_VERIF=1 for uniformity",
                  "baseline_off_cmd": "cd /repo && /venv/bin/python -m pytest -ra -q -p no:cacheprovider --timeout=900 --continue-on-collection-errors",
                  "source_commits": [], "add_only": True},
        "engines": [{"name": "detsim", "path": "/verif/sim", "serves_properties": [c["property_id"] for c in checks],
                     "kind_free_text": "single-process deterministic simulator (plus fresh-interpreter references and seeded line-level OS-thread schedules): seeded traffic generator + reference model, fault injector on stored bytes / EOF / history / containers, byte-source and file seams, generator-stepping scheduler with pre-emption inside pulls, replay files, ddmin-style minimiser"}],
        "checks": checks,
        "not_applicable": na,
        "notes": "VERIF_SEED (default 20261004) decides every run; exit 0 held / 1 VIOLATION with reproducing replay / 2 harness error. known_findings.json lists recorded and fixed findings.",
    }
    with open(os.path.join(V, "MANIFEST.json"), "w") as f:
        json.dump(m, f, indent=1)
    print("MANIFEST.json:", len(checks), "checks,", len(na), "not_applicable")

main()

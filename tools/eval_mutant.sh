#!/bin/sh
# tools/eval_mutant.sh <src-dir-of-mutated-tree> [props...] : run quick checks against a mutated copy (no evidence written)
SRC=$1; shift
PROPS=${@:-"C01 C02 C03 C04 C05 C06 C07 C08 C09 C10 C11 C12 C13 C14 C15 C19"}
for p in $PROPS; do
  out=$(VERIF_REPO_SRC=$SRC /verif/bin/check $p --tier quick --no-evidence 2>&1); rc=$?
  sig=$(echo "$out" | grep -m2 "clause=" | sed 's/^ *//' | cut -c1-150 | tr '\n' ';')
  echo "$p rc=$rc $sig"
done

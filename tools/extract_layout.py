#!/venv/bin/python
"""One-off tool: extract the TPM 2.0 layout tables of a tpmstream tree into a JSON snapshot.

Run ONCE against the pinned commit; the result (layout/tpm20_layout.json) is committed data.
No check ever runs this tool: the snapshot must not follow the tree under test.

    PYTHONPATH=/repo/src /venv/bin/python tools/extract_layout.py > layout/tpm20_layout.json
"""
import json
import sys
from dataclasses import fields

from tpmstream.common.util import is_list
from tpmstream.spec.commands import Command, Response, command_response_types
from tpmstream.spec.commands.params_common import TPM2B_ENCRYPTED_PARAM
from tpmstream.spec.common.values import NamedRange, ValidValues
from tpmstream.spec.structures import structures_types
from tpmstream.spec.structures.constants import TPM_CC


def merge(iv):
    iv = sorted(iv)
    out = []
    for lo, hi in iv:
        if out and lo <= out[-1][1] + 1:
            out[-1][1] = max(out[-1][1], hi)
        else:
            out.append([lo, hi])
    return out


def intervals_of(v):
    """closed integer intervals covered by one element of a ValidValues tuple"""
    if isinstance(v, range):
        assert v.step == 1
        return [[v.start, v.stop - 1]] if v.stop > v.start else []
    if isinstance(v, NamedRange):
        return [[v._start, v._end - 1]] if v._end > v._start else []
    if isinstance(v, type):  # tpm_enum class: iterate members
        out = []
        for m in v:
            out += intervals_of(m)
        return out
    return [[int(v), int(v)]]


def valid_intervals(t):
    vv = t._valid_values
    assert isinstance(vv, ValidValues)
    out = []
    for v in vv._values:
        out += intervals_of(v)
    return merge(out)


def tname(t):
    if t is None:
        return None
    if is_list(t):
        return {"list": t.__args__[0].__name__}
    return t.__name__


def describe(t):
    name = t.__name__
    if hasattr(t, "_int_size"):
        lo = -(1 << (8 * t._int_size - 1)) if t._signed else 0
        hi = (1 << (8 * t._int_size - 1)) - 1 if t._signed else (1 << (8 * t._int_size)) - 1
        iv = [[max(a, lo), min(b, hi)] for a, b in valid_intervals(t) if b >= lo and a <= hi]
        return {"kind": "prim", "size": t._int_size, "signed": bool(t._signed), "valid": iv,
                "bitfield": hasattr(t, "attributes")}
    fl = [{"name": f.name, "type": tname(f.type)} for f in fields(t)]
    if name.startswith("TPM2B"):
        assert len(fl) == 2 and fl[0]["type"] == "UINT16", (name, fl)
        return {"kind": "tpm2b", "fields": fl}
    if hasattr(t, "_selected_by"):
        sel = [[(None if v is None else ("class:" + v.__name__) if isinstance(v, type) else int(v)), k] for k, v in t._selected_by.items()]
        return {"kind": "union", "fields": fl, "selected_by": sel,
                "list_size": dict(getattr(t, "_list_size", {}))}
    d = {"kind": "struct", "fields": fl}
    if hasattr(t, "_selectors"):
        d["selectors"] = dict(t._selectors)
    return d


types = {}
for t in structures_types + [TPM2B_ENCRYPTED_PARAM]:
    types[t.__name__] = describe(t)
area_key = {}   # id(type) -> snapshot key (the name, "#<table>"-suffixed if two different types share a name)
commands = {}
for cc in TPM_CC:
    ent = {"name": cc._name}
    for fam, tab in (("cmd_handles", Command._type_maps["handles"]), ("cmd_params", Command._type_maps["parameters"]),
                     ("rsp_handles", Response._type_maps["handles"]), ("rsp_params", Response._type_maps["parameters"])):
        t = tab[cc]
        if id(t) not in area_key:
            key = t.__name__
            if key in types:
                key = key + "#" + fam
            area_key[id(t)] = key
            types[key] = describe(t)
        ent[fam] = area_key[id(t)]
    commands[str(int(cc))] = ent

framing = {
    "Command": [{"name": f.name, "type": tname(f.type) if f.type.__class__.__name__ != "_SpecialForm" and str(f.type) != "typing.Any" else "ANY"} for f in fields(Command)],
    "Response": [{"name": f.name, "type": tname(f.type) if str(f.type) != "typing.Any" else "ANY"} for f in fields(Response)],
}
json.dump({"pinned_commit": "f0740e3", "types": types, "commands": commands, "framing": framing},
          sys.stdout, indent=1, sort_keys=True)

#!/venv/bin/python
"""One-off audit of layout/tpm20_layout.json against the tree it was extracted from (membership probing)."""
import json, random, sys
from tpmstream.spec.structures import structures_types
L = json.load(open('/verif/layout/tpm20_layout.json'))
T = {t.__name__: t for t in structures_types}
rng = random.Random(1)
bad = 0
for n, d in L['types'].items():
    if d['kind'] != 'prim' or n not in T: continue
    t = T[n]
    def model(v): return any(a <= v <= b for a, b in d['valid'])
    lo = -(1 << (8*d['size']-1)) if d['signed'] else 0
    hi = (1 << (8*d['size']-1))-1 if d['signed'] else (1 << (8*d['size']))-1
    if d['size'] <= 2: vals = range(lo, hi+1)
    else:
        vals = {lo, hi, lo+1, hi-1}
        for a, b in d['valid']:
            vals |= {a-1, a, a+1, b-1, b, b+1}
        vals |= {rng.randrange(lo, hi+1) for _ in range(200)}
        vals = [v for v in vals if lo <= v <= hi]
    for v in vals:
        if bool(t(v).is_valid()) != model(v):
            bad += 1; print('MISMATCH', n, v, t(v).is_valid(), model(v))
print('audit done, mismatches:', bad)

#!/bin/sh
# tools/soak.sh <tier> <seed>...: run every registered check at the given tier under each VERIF_SEED (no evidence written);
# prints one line per (seed, property) and keeps the full output of every run that did not exit 0 under soak-logs/.
# Used with `vp run` to shake out false alarms on the unchanged tree at seeds other than the default.
TIER=$1; shift
D=$(cd "$(dirname "$0")/.." && pwd)
mkdir -p "$D/soak-logs"
for S in "$@"; do
  for P in C01 C02 C03 C04 C05 C06 C07 C08 C09 C10 C11 C12 C13 C14 C15 C19; do
    VERIF_SEED=$S "$D/bin/check" $P --tier $TIER --no-evidence > "$D/soak-logs/$P-$S.log" 2>&1; E=$?
    echo "seed=$S $P exit=$E $(tail -1 "$D/soak-logs/$P-$S.log" | cut -c1-160)"
    if [ $E -eq 0 ]; then rm -f "$D/soak-logs/$P-$S.log"; fi
  done
done

#!/venv/bin/python
"""tools/automutate.py - systematic sensitivity measurement with machine-made mutants (not a registered check).

  automutate.py list   [--seed S] [--n N]           print the sampled mutant sites
  automutate.py run    [--seed S] [--n N] [--out F] [--only ID,ID] [--tests]
                       apply each sampled mutant to a scratch copy of /repo/src under /tmp (removed afterwards),
                       run the quick checks against it through VERIF_REPO_SRC (most relevant first, stop at the
                       first check that reports a reproducing violation), record what caught it.

A mutant is a single-token / single-statement edit found through the AST and applied textually, so that everything
else in the file stays byte-identical.  Operators: comparison swaps, and/or swap, `not` removal, +/- swap, small
integer constants +1, `if X` -> `if not (X)`, statement deletion (-> pass), break/continue swap.

Survivors are listed with their diff for manual triage: equivalent mutant, outside every claimed property, or a gap.
"""
import ast
import difflib
import json
import os
import random
import shutil
import subprocess
import sys
import time

REPO_SRC = os.environ.get("AUTOMUT_BASE", "/repo/src")
VERIF = os.path.dirname(os.path.dirname(os.path.abspath(__file__)))
# (file, weight, checks to try first)
FILES = [
    ("io/binary/marshal.py", 10, ["C01", "C03", "C08", "C05", "C07", "C09", "C13", "C10", "C06", "C04", "C12"]),
    ("common/constraints.py", 6, ["C03", "C08", "C13", "C07", "C01", "C06"]),
    ("common/object.py", 4, ["C11", "C09", "C12"]),
    ("common/canonical.py", 1, ["C11"]),
    ("common/error.py", 2, ["C03", "C04", "C05", "C07", "C13", "C14"]),
    ("common/event.py", 1, ["C01", "C14", "C07"]),
    ("common/path.py", 2, ["C01", "C14", "C11"]),
    ("common/util.py", 1, ["C01", "C11", "C14"]),
    ("io/binary/unmarshal.py", 1, ["C02", "C14"]),
    ("io/pretty/unmarshal.py", 4, ["C14", "C19"]),
    ("io/events/unmarshal.py", 1, ["C14", "C19"]),
    ("io/hex/marshal.py", 2, ["C15", "C10", "C19"]),
    ("io/swtpm_log/marshal.py", 3, ["C15", "C10", "C19"]),
    ("io/pcapng/marshal.py", 2, ["C15", "C19"]),
    ("io/auto/marshal.py", 2, ["C15", "C19"]),
    ("io/__init__.py", 2, ["C10", "C19", "C15"]),
    ("__main__.py", 4, ["C19"]),
    ("spec/commands/params_common.py", 2, ["C01", "C12", "C09", "C06"]),
    ("spec/commands/__init__.py", 2, ["C01", "C09", "C11"]),
    ("spec/common/base_type.py", 2, ["C01", "C02", "C04", "C14"]),
    ("spec/common/values.py", 2, ["C04", "C01", "C06", "C14"]),
]
ALL = ["C%02d" % i for i in list(range(1, 16)) + [19]]
CMP = {ast.Lt: ("<", "<="), ast.LtE: ("<=", "<"), ast.Gt: (">", ">="), ast.GtE: (">=", ">"), ast.Eq: ("==", "!="),
       ast.NotEq: ("!=", "=="), ast.Is: ("is", "is not"), ast.IsNot: ("is not", "is"), ast.In: ("in", "not in"),
       ast.NotIn: ("not in", "in")}


def offsets(src):
    lines = src.splitlines(keepends=True)
    starts = [0]
    for ln in lines:
        starts.append(starts[-1] + len(ln.encode()))
    return starts


def sites(path):
    """-> list of (kind, start byte, end byte, replacement text, lineno)"""
    raw = open(path, "rb").read()
    src = raw.decode()
    tree = ast.parse(src)
    st = offsets(src)

    def pos(node, end=False):
        return st[(node.end_lineno if end else node.lineno) - 1] + (node.end_col_offset if end else node.col_offset)

    out = []
    for node in ast.walk(tree):
        if isinstance(node, ast.Compare):
            left = node.left
            for op, comp in zip(node.ops, node.comparators):
                a, b = pos(left, True), pos(comp)
                seg = raw[a:b].decode()
                old, new = CMP[type(op)]
                k = seg.find(old)
                if k >= 0 and seg.strip(" ()\n\\") == old:
                    out.append(("cmp:%s->%s" % (old, new), a + k, a + k + len(old), new, node.lineno))
                left = comp
        elif isinstance(node, ast.BoolOp):
            old, new = ("and", "or") if isinstance(node.op, ast.And) else ("or", "and")
            a, b = pos(node.values[0], True), pos(node.values[1])
            seg = raw[a:b].decode()
            k = seg.find(old)
            if k >= 0 and seg.strip(" ()\n\\") == old:
                out.append(("bool:%s->%s" % (old, new), a + k, a + k + len(old), new, node.lineno))
        elif isinstance(node, ast.UnaryOp) and isinstance(node.op, ast.Not):
            a = pos(node)
            if raw[a:a + 4] == b"not ":
                out.append(("not-removed", a, a + 4, "", node.lineno))
        elif isinstance(node, ast.BinOp) and isinstance(node.op, (ast.Add, ast.Sub)):
            old, new = ("+", "-") if isinstance(node.op, ast.Add) else ("-", "+")
            a, b = pos(node.left, True), pos(node.right)
            seg = raw[a:b].decode()
            if seg.strip(" ()\n\\") == old:
                k = seg.find(old)
                out.append(("arith:%s->%s" % (old, new), a + k, a + k + 1, new, node.lineno))
        elif isinstance(node, ast.Constant) and type(node.value) is int and 0 <= node.value <= 16:
            a, b = pos(node), pos(node, True)
            if raw[a:b].decode() == str(node.value):
                out.append(("const:%d->%d" % (node.value, node.value + 1), a, b, str(node.value + 1), node.lineno))
        elif isinstance(node, (ast.If, ast.While)) and not isinstance(node.test, ast.Constant):
            a, b = pos(node.test), pos(node.test, True)
            out.append(("negate-%s" % type(node).__name__.lower(), a, b, "not (%s)" % raw[a:b].decode(), node.lineno))
        elif isinstance(node, (ast.Expr, ast.Assign, ast.AugAssign)) and node.lineno == node.end_lineno:
            if isinstance(node, ast.Expr) and isinstance(node.value, ast.Constant):
                continue        # docstring
            if isinstance(node, ast.Assign) and node.col_offset == 0:
                continue        # module-level tables
            a, b = pos(node), pos(node, True)
            out.append(("delete-stmt", a, b, "pass", node.lineno))
        elif isinstance(node, ast.Break):
            out.append(("break->continue", pos(node), pos(node, True), "continue", node.lineno))
        elif isinstance(node, ast.Continue):
            out.append(("continue->break", pos(node), pos(node, True), "break", node.lineno))
    out.sort(key=lambda s: (s[1], s[0]))
    return raw, out


def sample(seed, n):
    rng = random.Random(seed)
    per_file = {}
    for f, w, order in FILES:
        p = os.path.join(REPO_SRC, "tpmstream", f)
        if not os.path.exists(p):
            continue
        raw, ss = sites(p)
        per_file[f] = (raw, ss, w, order)
    total_w = sum(v[2] for v in per_file.values())
    picks = []
    for f, (raw, ss, w, order) in sorted(per_file.items()):
        k = max(1, round(n * w / total_w))
        idx = list(range(len(ss)))
        rng.shuffle(idx)
        for j in sorted(idx[:k]):
            kind, a, b, new, line = ss[j]
            picks.append(dict(id="%s:%d:%s#%d" % (f, line, kind, j), file=f, kind=kind, a=a, b=b, new=new, line=line, order=order))
    return picks, per_file


def apply(m, per_file, dst_src):
    raw = per_file[m["file"]][0]
    mutated = raw[:m["a"]] + m["new"].encode() + raw[m["b"]:]
    p = os.path.join(dst_src, "tpmstream", m["file"])
    with open(p, "wb") as f:
        f.write(mutated)
    diff = "".join(difflib.unified_diff(raw.decode().splitlines(True), mutated.decode().splitlines(True), m["file"], m["file"], n=1))
    return diff


def run_check(src, prop):
    env = dict(os.environ, VERIF_REPO_SRC=src)
    t0 = time.time()
    try:
        r = subprocess.run([os.path.join(VERIF, "bin", "check"), prop, "--tier", "quick", "--no-evidence"], env=env,
                           capture_output=True, text=True, timeout=900)
        rc, out = r.returncode, r.stdout
    except subprocess.TimeoutExpired:
        rc, out = 2, "timeout"
    sig = next((ln.strip() for ln in out.splitlines() if ln.strip().startswith("clause=")), None)
    return rc, sig, round(time.time() - t0, 1), out


def main():
    args = sys.argv[1:]
    cmd = args[0] if args else "list"
    def opt(name, default):
        return type(default)(args[args.index(name) + 1]) if name in args else default
    seed, n = opt("--seed", 1), opt("--n", 100)
    out_path = opt("--out", os.path.join(VERIF, "automutants-%d.json" % seed))
    only = set(opt("--only", "").split(",")) - {""}
    picks, per_file = sample(seed, n)
    if cmd == "list":
        for m in picks:
            print(m["id"])
        print(len(picks), "mutants;", {f: len(v[1]) for f, v in per_file.items()})
        return
    results = json.load(open(out_path)) if os.path.exists(out_path) else {}
    scratch = "/tmp/automut-%d" % os.getpid()
    for m in picks:
        if only and m["id"] not in only:
            continue
        if m["id"] in results and not only:
            continue
        shutil.rmtree(scratch, ignore_errors=True)
        shutil.copytree(REPO_SRC, os.path.join(scratch, "src"), ignore=shutil.ignore_patterns("__pycache__", "*.egg-info"))
        diff = apply(m, per_file, os.path.join(scratch, "src"))
        rec = dict(kind=m["kind"], file=m["file"], line=m["line"], diff=diff, checks={})
        imp = subprocess.run(["/venv/bin/python", "-c", "import tpmstream.__main__, tpmstream.io.auto, tpmstream.io.pretty, tpmstream.io.events, tpmstream.common.canonical"],
                             env=dict(os.environ, PYTHONPATH=os.path.join(scratch, "src"), PYTHONDONTWRITEBYTECODE="1"), capture_output=True, text=True)
        if imp.returncode != 0:
            rec["status"] = "does-not-import"
        else:
            order = m["order"] + [p for p in ALL if p not in m["order"]]
            rec["status"] = "survived"
            for p in order:
                rc, sig, wall, out = run_check(os.path.join(scratch, "src"), p)
                rec["checks"][p] = dict(exit=rc, sig=sig, wall_s=wall)
                if rc == 1:
                    rec["status"] = "caught"
                    rec["caught_by"] = p
                    break
                if rc == 2:
                    rec["checks"][p]["tail"] = out[-400:]
            if rec["status"] == "survived" and "--tests" in args:
                t = subprocess.run(["/venv/bin/python", "-m", "pytest", "-q", "-p", "no:cacheprovider", "-n", "16", "--timeout=900",
                                    "--continue-on-collection-errors", "--ignore=test/test_pytss.py"], cwd="/repo",
                                   env=dict(os.environ, PYTHONPATH=os.path.join(scratch, "src"), PYTHONDONTWRITEBYTECODE="1"), capture_output=True, text=True)
                rec["test_suite"] = t.stdout.strip().splitlines()[-1][:200] if t.stdout.strip() else "?"
        results[m["id"]] = rec
        print(m["id"], rec["status"], rec.get("caught_by"), rec.get("test_suite", ""), flush=True)
        json.dump(results, open(out_path, "w"), indent=1, sort_keys=True)
    shutil.rmtree(scratch, ignore_errors=True)
    c = {}
    for r in results.values():
        c[r["status"]] = c.get(r["status"], 0) + 1
    print("summary:", c)


if __name__ == "__main__":
    main()

#!/venv/bin/python
"""One-off tool: pin the *text form* of every valid value of every primitive type of the snapshot
(layout/tpm20_textforms.json).  Run ONCE against the pinned tree (f0740e3 + fix: commits, none of which touches a text
form of a valid value); no check ever runs it.  Used by C01.f / C14.f: the text an event's value renders to is part of
"the interpretation the layout tables dictate" (member name; for named handle ranges the range name plus the
zero-padded hexadecimal offset; plain integers in decimal).

    PYTHONPATH=/repo/src:/verif /venv/bin/python tools/extract_textforms.py > layout/tpm20_textforms.json

Per type: a list of pieces [lo, hi, rule] covering its valid values, rule one of
  {"k": "dec"}                                  text = str(v)
  {"k": "named", "p": prefix, "n": nibbles, "b": base}   text = prefix + "%0<n>x" % (v - base)
  {"k": "enum", "t": {str(v): text}}            explicit
Types whose text is a function of bit masks or response-code rules (attribute words, TPM_RC) are left out (C17/C18).
"""
import json
import sys

from sim.layout import layout
from tpmstream.spec.common.values import NamedRange
from tpmstream.spec.structures import structures_types


def elements(vv, out):
    for v in vv._values:
        if isinstance(v, range):
            out.add(v.start); out.add(v.stop)
        elif isinstance(v, NamedRange):
            out.add(v._start); out.add(v._end)
        elif isinstance(v, type):
            for m in v:
                if isinstance(m, NamedRange):
                    out.add(m._start); out.add(m._end)
                else:
                    out.add(int(m)); out.add(int(m) + 1)
        else:
            out.add(int(v)); out.add(int(v) + 1)


def text(T, v):
    return "{}".format(T(v))


def fit(T, lo, hi):
    n = hi - lo + 1
    if n <= 600:
        return {"k": "enum", "t": {str(v): text(T, v) for v in range(lo, hi + 1)}}
    samples = sorted(set(v for v in (lo, lo + 1, lo + 9, lo + 10, lo + 15, lo + 16, lo + 255, lo + 256, lo + 4095, lo + 4096,
                                     (lo + hi) // 2, hi - 1, hi) if lo <= v <= hi))
    texts = [text(T, v) for v in samples]
    if all(t == str(v) for t, v in zip(texts, samples)):
        return {"k": "dec"}
    if all("." in t for t in texts):
        pre = [t.rsplit(".", 1)[0] + "." for t in texts]
        suf = [t.rsplit(".", 1)[1] for t in texts]
        try:
            base = [v - int(s, 16) for v, s in zip(samples, suf)]
        except ValueError:
            return None
        if len(set(pre)) == 1 and len(set(base)) == 1 and len(set(len(s) for s in suf)) == 1:
            rule = {"k": "named", "p": pre[0], "n": len(suf[0]), "b": base[0]}
            if all(t == rule["p"] + "%0*x" % (rule["n"], v - rule["b"]) for t, v in zip(texts, samples)):
                return rule
    return None


L = layout()
by_name = {t.__name__: t for t in structures_types}
out = {}
skipped = {}
for name, t in sorted(L.types.items()):
    if t["kind"] != "prim" or name not in by_name:
        continue
    T = by_name[name]
    if t.get("bitfield") or name == "TPM_RC":
        skipped[name] = "bit masks / response-code rules (C17, C18)"
        continue
    cuts = set()
    elements(T._valid_values, cuts)
    pieces = []
    ok = True
    for a, b in t["valid"]:
        pts = sorted(set([a, b + 1] + [c for c in cuts if a < c <= b]))
        for lo, nxt in zip(pts, pts[1:]):
            rule = fit(T, lo, nxt - 1)
            if rule is None:
                ok = False
                break
            if pieces and rule["k"] == "enum" and pieces[-1][2]["k"] == "enum" and pieces[-1][1] + 1 == lo:
                pieces[-1][1] = nxt - 1
                pieces[-1][2]["t"].update(rule["t"])
            else:
                pieces.append([lo, nxt - 1, rule])
        if not ok:
            break
    if ok:
        out[name] = pieces
    else:
        skipped[name] = "no rule fits"
json.dump({"pinned_commit": "f0740e3 + fix commits (no text form of a valid value changed)", "types": out, "not_pinned": skipped},
          sys.stdout, indent=0, sort_keys=True)

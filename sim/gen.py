"""Seeded traffic generator: value trees from the pinned layout, serialised to bytes + expected items.

The generator never looks at bytes: it picks a union arm, then a selector value that selects it;
list counts; buffer sizes; present/absent size-prefixed structures; allowed values biased to the
end points of the allowed intervals.  `serialise` turns a tree into bytes and the expected item list
(independently of model.py, which decodes bytes) - the two are compared on every run as an oracle
self-check.
"""
from .layout import (ATTR_DECRYPT, ATTR_ENCRYPT, ENC_TPM2B, TAG_NO_SESSIONS, TAG_SESSIONS, disp, layout)

HASH_SIZES = (20, 32, 48, 64)
# payloads that look like the start of some other file format (TPM buffers carry arbitrary user data)
MAGICS = (b"\x1f\x8b\x08", b"PK\x03\x04", b"\x0a\x0d\x0d\x0a", b"SWTPM_IO", b"BZh9", b"\xfd7zXZ\x00", b"\x28\xb5\x2f\xfd", b"\x7fELF",
          b"%PDF", b"80 01 ", b"\xef\xbb\xbf", b"\xff\xfe", b"Ctrl")
SMALL = (0, 1, 2, 3, 10, 127, 128, 129, 246, 254, 255, 256, 257, 32767, 32768, 65535, 65536,
         -1, -2, -3, -10, -127, -128, -129, -246, -255, -256, -257, -32768, -65536)


class Knobs:
    """swarm knobs of one run"""

    def __init__(self, rng=None, **kw):
        self.max_buf = 8
        self.max_list = 2
        self.p_big_buf = 0.02
        self.p_absent = 0.3
        self.p_sessions = 0.5
        self.max_sessions = 3
        self.p_enc = 0.4
        self.p_fail = 0.2
        self.p_endpoint = 0.6
        self.max_nodes = 400
        self.p_text_tail = 0.12
        self.p_magic = 0.04
        self.huge_buf = 0
        self.many = 0
        if rng is not None:
            self.max_buf = rng.choice((0, 1, 2, 4, 8, 8, 16, 32, 70))
            self.max_list = rng.choice((0, 1, 1, 2, 2, 3, 5))
            self.p_big_buf = rng.choice((0.0, 0.01, 0.05))
            self.p_absent = rng.choice((0.0, 0.2, 0.5, 0.9))
            self.p_sessions = rng.choice((0.0, 0.3, 0.6, 1.0))
            self.max_sessions = rng.choice((1, 2, 3, 3, 5))       # more than three is outside the spec but decodes (byte-sized area)
            self.p_enc = rng.choice((0.0, 0.3, 0.7, 1.0))
            self.p_fail = rng.choice((0.0, 0.1, 0.3, 0.6))
            self.p_endpoint = rng.choice((0.2, 0.6, 0.9))
            # rare magnitudes: one buffer beyond the signed 16-bit range / several kB, one list with hundreds of elements
            self.huge_buf = rng.choice((4096, 4097, 5000, 8192, 32767, 32768, 33000)) if rng.random() < 0.003 else 0
            self.many = rng.choice((16, 17, 64, 255, 256, 257, 300)) if rng.random() < 0.004 else 0
        for k, v in kw.items():
            setattr(self, k, v)

    def as_dict(self):
        return dict(self.__dict__)


# ---- value trees --------------------------------------------------------------------------------
# ("prim", tname, value)
# ("struct", tname, [(fname, node)], enc)
# ("list", elem, [node])
# ("tpm2b", tname, payload)        payload: ("list", ...) | node | None (absent struct payload)
# ("union", tname, member|None, node|None)
# ("command", tag, cc, handles, sessions|None, params, enc)
# ("response", tag, rc, cc, handles|None, params|None, sessions|None, enc)


class Gen:
    def __init__(self, rng, knobs=None, lay=None):
        self.rng = rng
        self.k = knobs or Knobs()
        self.L = lay or layout()
        self.nodes = 0
        self.arms = []       # (union type, member) chosen - coverage probe
        self.used_huge = False
        self.used_many = False
        self.allow_huge = False
        self.session_handle = None

    # -- primitives --
    def value(self, tname):
        rng = self.rng
        iv = self.L.types[tname]["valid"]
        if self.L.types[tname].get("bitfield") and rng.random() < 0.3:
            # attribute words of different types often hold numerically equal small values (0x20, 0x60, 0xf6 ...)
            v = rng.choice((0x20, 0x40, 0x60, 0x01, 0xF6, rng.randrange(256)))
            if self.L.valid(tname, v):
                return v
        a, b = iv[rng.randrange(len(iv))]
        if a == b:
            return a
        r = rng.random()
        if b - a > 1024 and rng.random() < 0.35:
            # wide ranges: small magnitudes and power-of-two neighbours are where width / sign / caching bugs live
            c = [v for v in SMALL if a <= v <= b]
            if c:
                return rng.choice(c)
        if r < self.k.p_endpoint:
            return rng.choice((a, b, a + 1 if a + 1 <= b else a, b - 1 if b - 1 >= a else b))
        return rng.randint(a, b)

    def some_values(self, tname, limit=600):
        """enumerate allowed values of a small type (for selector choice), else sample"""
        iv = self.L.types[tname]["valid"]
        total = sum(b - a + 1 for a, b in iv)
        if total <= limit:
            return [v for a, b in iv for v in range(a, b + 1)]
        return [self.value(tname) for _ in range(32)]

    def buf_size(self):
        rng = self.rng
        if self.allow_huge and self.k.huge_buf and not self.used_huge:
            self.used_huge = True
            return self.k.huge_buf
        r = rng.random()
        if r < self.k.p_big_buf:
            return rng.choice((255, 256, 257, 300))
        if r < 0.25:
            return 0
        if r < 0.35 and self.k.max_buf >= 20:
            return rng.choice([h for h in HASH_SIZES if h <= max(20, self.k.max_buf)])
        return rng.randint(0, self.k.max_buf)

    # -- generic --
    def node(self, t, selector=None, count=None, depth=0):
        self.nodes += 1
        if isinstance(t, dict):
            return ("list", t["list"], [self.node(t["list"], depth=depth + 1) for _ in range(count)])
        k = self.L.kind(t)
        if k == "prim":
            return ("prim", t, self.value(t))
        if k == "tpm2b":
            return self.tpm2b(t, depth)
        if k == "union":
            return self.union(t, selector, depth)
        return self.struct(t, depth=depth)

    def list_count(self, count_type, depth, elem=None):
        lo_hi = self.L.types[count_type]["valid"]
        if self.allow_huge and self.k.many and not self.used_many and elem is not None and self.L.is_prim(elem) and self.L.valid(count_type, self.k.many):
            self.used_many = True
            return self.k.many
        limit = self.k.max_list
        if self.nodes > self.k.max_nodes or depth > 6:
            limit = 0
        c = self.rng.randint(0, limit)
        # the count must itself be an allowed value of its type
        if not self.L.valid(count_type, c):
            c = lo_hi[0][0]
        return c

    def struct(self, tname, enc=False, depth=0, force=None):
        """force: {field name: value} for primitive fields (used for sessionAttributes bits)"""
        t = self.L.types[tname]
        fl = self.L.fields(tname, enc)
        selectors = t.get("selectors", {})
        sel_fields = {}
        for u, s in selectors.items():
            sel_fields.setdefault(s, []).append(u)
        out = []
        vals = {}
        prev_prim = None
        for i, f in enumerate(fl):
            ft = f["type"]
            name = f["name"]
            if isinstance(ft, dict) and i > 0 and isinstance(fl[i - 1]["type"], dict):
                # parallel arrays: a list directly behind a list shares its count (the nearest preceding non-list member)
                n = self.node(ft, count=shared, depth=depth + 1)
            elif isinstance(ft, dict):
                # counted list: the count is the preceding primitive, already generated -> patch it
                ctype = fl[i - 1]["type"]
                c = shared = self.list_count(ctype, depth, ft["list"])
                out[-1] = (fl[i - 1]["name"], ("prim", ctype, c))
                vals[fl[i - 1]["name"]] = c
                n = self.node(ft, count=c, depth=depth + 1)
            elif name in selectors:
                n = self.node(ft, selector=vals[selectors[name]], depth=depth + 1)
            elif name in sel_fields and self.L.is_prim(ft):
                v = self.selector_value(ft, [fx["type"] for fx in fl if fx["name"] in sel_fields[name]])
                n = ("prim", ft, v)
                vals[name] = v
            else:
                n = self.node(ft, depth=depth + 1)
                if n[0] == "prim":
                    if force and name in force:
                        n = ("prim", ft, force[name])
                    vals[name] = n[2]
            out.append((name, n))
        return ("struct", tname, out, enc)

    def selector_value(self, seltype, union_types):
        """pick an arm of the first union uniformly, then a selector value selecting it"""
        rng = self.rng
        cands = self.some_values(seltype)
        u = self.L.types[union_types[0]]
        members = [f["name"] for f in u["fields"]]
        rng.shuffle(members)
        for m in members:
            vs = [v for v in cands if self.L.union_select(union_types[0], v) == m]
            if vs:
                return rng.choice(vs)
        return rng.choice(cands)

    def tpm2b(self, tname, depth=0):
        sf, bf = self.L.types[tname]["fields"]
        if isinstance(bf["type"], dict):
            n = self.buf_size()
            elems = [("prim", bf["type"]["list"], self.value(bf["type"]["list"])) for _ in range(n)]
            if n >= 3 and self.rng.random() < self.k.p_magic:
                for j, b in enumerate(self.rng.choice(MAGICS)[:n]):
                    elems[j] = ("prim", bf["type"]["list"], b)
            if n and self.rng.random() < self.k.p_text_tail:
                # buffers carrying text: end in LF / CR LF / NUL / space (container front-ends must not care)
                tail = self.rng.choice(((10,), (13, 10), (0,), (32,), (13,)))
                for j, b in enumerate(tail[-n:]):
                    elems[n - len(tail[-n:]) + j] = ("prim", bf["type"]["list"], b)
            return ("tpm2b", tname, ("list", bf["type"]["list"], elems))
        if self.rng.random() < self.k.p_absent or self.nodes > self.k.max_nodes:
            return ("tpm2b", tname, None)
        payload = self.node(bf["type"], depth=depth + 1)
        if len(_ser_len(self.L, payload)) == 0:
            # a payload whose encoding is empty cannot be told from an absent one: size 0 => absent
            return ("tpm2b", tname, None)
        return ("tpm2b", tname, payload)

    def union(self, tname, selector, depth=0):
        member = self.L.union_select(tname, selector)
        assert member is not None, (tname, selector)
        self.arms.append((tname, member))
        mt = self.L.union_member_type(tname, member)
        if mt is None:
            return ("union", tname, member, None)
        if isinstance(mt, dict):
            c = self.L.types[tname]["list_size"][member]
            return ("union", tname, member, self.node(mt, count=c, depth=depth + 1))
        return ("union", tname, member, self.node(mt, depth=depth + 1))

    # -- framing --
    def sessions(self, n, stype, bit_set, bit, other_bit_set, other_bit):
        """n session structs; exactly the requested encryption bits"""
        rng = self.rng
        out = []
        carrier = rng.randrange(n) if n else 0
        other_carrier = rng.randrange(n) if n else 0
        for i in range(n):
            attrs = rng.randrange(256) & ~(ATTR_DECRYPT | ATTR_ENCRYPT) & 0xFF
            if bit_set and i == carrier:
                attrs |= bit
            if other_bit_set and i == other_carrier:
                attrs |= other_bit
            force = {"sessionAttributes": attrs}
            if self.session_handle is not None and stype == "TPMS_AUTH_COMMAND" and rng.random() < 0.8:
                force["sessionHandle"] = self.session_handle      # the session started earlier in this capture
            out.append(self.struct(stype, depth=2, force=force))
        return out

    def command(self, cc=None, n_sessions=None, enc=None, resp_enc=None):
        rng = self.rng
        if cc is None:
            cc = rng.choice(sorted(self.L.commands))
        c = self.L.commands[cc]
        if n_sessions is None:
            n_sessions = rng.randint(1, self.k.max_sessions) if rng.random() < self.k.p_sessions else 0
        can_enc = self.L.first_param_is_tpm2b(c["cmd_params"])
        can_renc = self.L.first_param_is_tpm2b(c["rsp_params"])
        if enc is None:
            enc = rng.random() < self.k.p_enc
        if resp_enc is None:
            resp_enc = rng.random() < self.k.p_enc
        enc = bool(enc and can_enc and n_sessions)
        resp_enc = bool(resp_enc and can_renc and n_sessions)
        handles = self.struct(c["cmd_handles"], depth=1)
        if n_sessions:
            sess = self.sessions(n_sessions, "TPMS_AUTH_COMMAND", enc, ATTR_DECRYPT, resp_enc, ATTR_ENCRYPT)
            tag = TAG_SESSIONS
        else:
            sess = None
            # a command with tag SESSIONS and an empty session area is well-formed too (rare)
            tag = TAG_NO_SESSIONS
            if rng.random() < 0.05:
                tag, sess = TAG_SESSIONS, []
        params = self.enc_params(c["cmd_params"]) if enc else self.struct(c["cmd_params"], depth=1)
        return ("command", tag, cc, handles, sess, params, enc), resp_enc

    def enc_params(self, tname):
        s = self.struct(tname, enc=True, depth=1)
        return s

    def response(self, cc, enc=False, fail=None, n_sessions=None, tag=None):
        rng = self.rng
        c = self.L.commands[cc]
        if fail is None:
            fail = rng.random() < self.k.p_fail
        if fail:
            rc = rng.choice((0x101, 0x100, 0x9A2, 0x1C4, 0x0B01, 0x80280400, 0x922, 0x84, 0x1, 0xFFFFFFFF,
                             rng.randrange(1, 1 << 32)))
            if tag is None:
                tag = rng.choice((TAG_NO_SESSIONS, TAG_NO_SESSIONS, TAG_SESSIONS, 0x00C4))
            return ("response", tag, rc, cc, None, None, None, False)
        enc = bool(enc and self.L.first_param_is_tpm2b(c["rsp_params"]))
        if n_sessions is None:
            n_sessions = rng.randint(1, self.k.max_sessions) if (enc or rng.random() < self.k.p_sessions) else 0
        if enc and not n_sessions:
            n_sessions = 1
        handles = self.struct(c["rsp_handles"], depth=1)
        params = self.enc_params(c["rsp_params"]) if enc else self.struct(c["rsp_params"], depth=1)
        if n_sessions:
            sess = self.sessions(n_sessions, "TPMS_AUTH_RESPONSE", enc, ATTR_ENCRYPT, False, 0)
            tag = TAG_SESSIONS
        else:
            sess = None
            if tag is None:
                tag = TAG_NO_SESSIONS if rng.random() < 0.9 else rng.choice((0x8000, 0x00C4, 0x8014, 0x8029))
            if tag == TAG_SESSIONS:
                sess = []
        return ("response", tag, 0, cc, handles, params, sess, enc)

    def exchange(self, cc=None, **kw):
        cmd, resp_enc = self.command(cc=cc, **kw)
        rsp = self.response(cmd[2], enc=resp_enc, n_sessions=(len(cmd[4]) if cmd[4] else 0) if resp_enc else None)
        return cmd, rsp


# ---- serialisation ------------------------------------------------------------------------------
class Ser:
    """tree -> bytes + expected items + bookkeeping (offsets of size fields etc.)"""

    def __init__(self, lay=None):
        self.L = lay or layout()
        self.buf = bytearray()
        self.items = []

    def S(self, path, td, sig=None):
        self.items.append(("S", path, td, sig))

    def prim(self, tname, value, path):
        size, signed, _ = self.L.prim(tname)
        off = len(self.buf)
        self.buf += int(value).to_bytes(size, "big", signed=signed)
        self.items.append(("P", path, tname, value, off, size, self.L.valid(tname, value)))
        return len(self.items) - 1

    def patch(self, idx, value):
        it = self.items[idx]
        size, signed, _ = self.L.prim(it[2])
        self.buf[it[4]:it[4] + size] = int(value).to_bytes(size, "big", signed=signed)
        self.items[idx] = ("P", it[1], it[2], value, it[4], size, self.L.valid(it[2], value))

    def sig(self, tname, enc=False):
        if self.L.kind(tname) == "prim":
            return None
        return self.L.fieldsig(tname, enc)

    def node(self, n, path):
        k = n[0]
        if k == "prim":
            self.prim(n[1], n[2], path)
        elif k == "struct":
            self.S(path, disp(n[1]), self.L.fieldsig(n[1], n[3]))
            for fname, child in n[2]:
                self.node(child, path + "." + fname)
        elif k == "list":
            self.S(path, "list[%s]" % n[1])
            for i, child in enumerate(n[2]):
                self.node(child, "%s[%d]" % (path, i))
        elif k == "tpm2b":
            sf, bf = self.L.types[n[1]]["fields"]
            self.S(path, n[1], self.L.fieldsig(n[1]))
            idx = self.prim(sf["type"], 0, path + "." + sf["name"])
            start = len(self.buf)
            if n[2] is None:
                self.S(path + "." + bf["name"], bf["type"], self.sig(bf["type"]))
            else:
                self.node(n[2], path + "." + bf["name"])
            self.patch(idx, len(self.buf) - start)
        elif k == "union":
            self.S(path, n[1], self.L.fieldsig(n[1]))
            if n[3] is not None:
                self.node(n[3], path + "." + n[2])
        elif k == "command":
            _, tag, cc, handles, sess, params, enc = n
            start = len(self.buf)
            self.S(path, "Command")
            self.prim("TPMI_ST_COMMAND_TAG", tag, path + ".tag")
            idx = self.prim("UINT32", 0, path + ".commandSize")
            self.prim("TPM_CC", cc, path + ".commandCode")
            self.node(handles, path + ".handles")
            if sess is not None:
                aidx = self.prim("UINT32", 0, path + ".authSize")
                astart = len(self.buf)
                self.S(path + ".authorizationArea", "list[TPMS_AUTH_COMMAND]")
                for i, s in enumerate(sess):
                    self.node(s, "%s.authorizationArea[%d]" % (path, i))
                self.patch(aidx, len(self.buf) - astart)
            self.node(params, path + ".parameters")
            self.patch(idx, len(self.buf) - start)
        elif k == "response":
            _, tag, rc, cc, handles, params, sess, enc = n
            start = len(self.buf)
            self.S(path, "Response")
            self.prim("TPM_ST", tag, path + ".tag")
            idx = self.prim("UINT32", 0, path + ".responseSize")
            self.prim("TPM_RC", rc, path + ".responseCode")
            if rc == 0:
                self.node(handles, path + ".handles")
                if tag == TAG_SESSIONS:
                    pidx = self.prim("UINT32", 0, path + ".parameterSize")
                    pstart = len(self.buf)
                self.node(params, path + ".parameters")
                if tag == TAG_SESSIONS:
                    self.patch(pidx, len(self.buf) - pstart)
                    self.S(path + ".authorizationArea", "list[TPMS_AUTH_RESPONSE]")
                    for i, s in enumerate(sess or []):
                        self.node(s, "%s.authorizationArea[%d]" % (path, i))
            self.patch(idx, len(self.buf) - start)
        else:
            raise ValueError(k)


def _ser_len(lay, tree):
    s = Ser(lay)
    s.node(tree, "")
    return s.buf


def serialise(tree, lay=None):
    s = Ser(lay)
    s.node(tree, "")
    return bytes(s.buf), s.items


def serialise_stream(trees, lay=None):
    """messages of a stream: each message restarts at the root path, offsets run on"""
    s = Ser(lay)
    bounds = [0]
    for t in trees:
        s.node(t, "")
        bounds.append(len(s.buf))
    return bytes(s.buf), s.items, bounds

"""Capture containers ("disk / wire"): writers with seeded layout noise and independent reference
readers for hex text, swtpm logs and pcapng captures."""
import struct


# ---- pcapng (reference reader, spec based: block type / total length framing) -----------------
def ref_pcapng_packets(blob):
    """[(linktype, packet bytes)] of all Enhanced Packet Blocks"""
    out = []
    off = 0
    endian = "<"
    ifaces = []
    while off + 12 <= len(blob):
        btype = struct.unpack_from(endian + "I", blob, off)[0]
        if btype == 0x0A0D0D0A:
            bom = blob[off + 8:off + 12]
            endian = "<" if bom == b"\x4d\x3c\x2b\x1a" else ">"
            ifaces = []
        blen = struct.unpack_from(endian + "I", blob, off + 4)[0]
        if blen < 12 or off + blen > len(blob):
            break
        body = blob[off + 8:off + blen - 4]
        if btype == 1:
            ifaces.append(struct.unpack_from(endian + "H", body, 0)[0])
        elif btype == 6:
            iface, _th, _tl, caplen, _plen = struct.unpack_from(endian + "IIIII", body, 0)
            lt = ifaces[iface] if iface < len(ifaces) else 1
            out.append((lt, body[20:20 + caplen]))
        off += blen
    return out


def _ip_payload(pkt):
    """IPv4 / IPv6 -> TCP payload (bytes) or None"""
    if len(pkt) >= 40 and pkt[0] >> 4 == 6:
        plen = struct.unpack_from(">H", pkt, 4)[0]
        body = pkt[40:40 + plen]
        if pkt[6] == 6:
            if len(body) < 20:
                return b""
            return body[(body[12] >> 4) * 4:]
        return body
    if len(pkt) < 20 or pkt[0] >> 4 != 4:
        return None
    ihl = (pkt[0] & 0xF) * 4
    total = struct.unpack_from(">H", pkt, 2)[0]
    proto = pkt[9]
    body = pkt[ihl:total] if total >= ihl else pkt[ihl:]
    if proto == 6:
        if len(body) < 20:
            return b""
        doff = (body[12] >> 4) * 4
        return body[doff:]
    if proto == 17:
        return body[8:]
    return body


def ref_pcapng_payloads(blob):
    """TPM payloads carried by a pcapng capture (no trimming, no skipping)"""
    out = []
    for lt, pkt in ref_pcapng_packets(blob):
        if lt == 1 and len(pkt) >= 14:      # Ethernet
            et = struct.unpack_from(">H", pkt, 12)[0]
            p = _ip_payload(pkt[14:]) if et in (0x0800, 0x86DD) else None
        else:                               # raw IP (linktype 101 / 228) or anything else
            p = _ip_payload(pkt)
        if p is not None:
            out.append(bytes(p))
    return out


# ---- hex text -----------------------------------------------------------------------------------
HEX_WS = b" \t\n\r\x0b\x0c"


def write_hex(data, rng, noise=True, style=None):
    """hex rendering with seeded layout noise: case, whitespace between and inside pairs"""
    out = bytearray()
    style = style or (rng.choice(("plain", "spaced", "lines", "noisy")) if noise else "plain")
    upper = rng.random() < 0.5
    mixed = rng.random() < 0.2
    for i, b in enumerate(data):
        s = "%02x" % b
        if mixed:
            s = "".join(c.upper() if rng.random() < 0.5 else c for c in s)
        elif upper:
            s = s.upper()
        hi, lo = s[0].encode(), s[1].encode()
        out += hi
        if style == "noisy" and rng.random() < 0.15:
            out += bytes(rng.choice(HEX_WS) for _ in range(rng.randint(1, 2)))
        out += lo
        if style == "spaced":
            out += b" "
        elif style == "lines":
            out += b"\n" if (i + 1) % 16 == 0 else b" "
        elif style == "noisy" and rng.random() < 0.3:
            out += bytes(rng.choice(HEX_WS) for _ in range(rng.randint(1, 3)))
    if noise and rng.random() < 0.5:
        out += rng.choice((b"\n", b"\r\n", b" ", b"\n\n"))
    return bytes(out)


def ref_hex_read(text):
    """reference reader: whitespace is skipped anywhere, the rest must be hex digit pairs.
    -> (bytes, ends, error) ; ends[j] = index just after the second digit of byte j"""
    digits = b"0123456789abcdefABCDEF"
    out, ends, cur = bytearray(), [], []
    for i, c in enumerate(text):
        if c in HEX_WS:
            continue
        if c not in digits:
            return bytes(out), ends, "non-hex character %r at %d" % (chr(c), i)
        cur.append(c)
        if len(cur) == 2:
            out.append(int(bytes(cur), 16))
            ends.append(i + 1)
            cur = []
    if cur:
        return bytes(out), ends, "odd number of digits"
    return bytes(out), ends, None


def ref_hex_pair_ends(text):
    return ref_hex_read(text)[1]


# ---- swtpm log ----------------------------------------------------------------------------------
def write_swtpm_log(data, bounds, rng, noise=True):
    """swtpm log in its documented layout: free text, then control-channel and SWTPM_IO sections of
    upper-case hex lines.  The control channel is a second writer interleaved by the seeded choice."""
    out = bytearray()
    if noise and rng.random() < 0.5:
        out += rng.choice((b"swtpm starting up\n", b"Log level 20\nlistening on port 2321\n", b"# capture\n\n"))
    eol = b"\r\n" if (noise and rng.random() < 0.2) else b"\n"
    width = rng.choice((16, 16, 8, 32)) if noise else 16

    def section(marker, payload):
        out.extend(marker + b": length %d" % len(payload) + eol)
        for i in range(0, len(payload), width):
            out.extend(b" ".join(b"%02X" % b for b in payload[i:i + width]) + (b" " if noise and rng.random() < 0.3 else b"") + eol)

    def ctrl():
        if noise and rng.random() < 0.5:
            section(b"Ctrl Cmd", bytes(rng.randrange(256) for _ in range(rng.choice((4, 4, 8)))))
            section(b"Ctrl Rsp", bytes(rng.randrange(256) for _ in range(rng.choice((4, 8, 12)))))

    b = sorted(set([0] + list(bounds) + [len(data)]))
    ctrl()
    for j, (a, e) in enumerate(zip(b, b[1:])):
        if e > a:
            section(b"SWTPM_IO_Read" if j % 2 == 0 else b"SWTPM_IO_Write", data[a:e])
            ctrl()
    return bytes(out)


def ref_swtpm_read(text):
    """reference reader (line based): payload lines of SWTPM_IO sections count, everything else is
    ignored.  -> (bytes, ends) ; ends[j] = index just after the second digit of byte j"""
    out, ends = bytearray(), []
    pos = 0
    in_io = False
    for line in text.split(b"\n"):
        start = pos
        pos += len(line) + 1
        body = line.rstrip(b"\r")
        if b"SWTPM_IO" in body:
            in_io = True
            continue
        if body.startswith(b"Ctrl"):
            in_io = False
            continue
        if not in_io:
            continue
        i = 0
        while i < len(body):
            if body[i:i + 1] in (b" ", b"\r"):
                i += 1
                continue
            pair = body[i:i + 2]
            out.append(int(pair, 16))
            ends.append(start + i + 2)
            i += 2
    return bytes(out), ends


def ref_swtpm_pair_ends(text):
    return ref_swtpm_read(text)[1]


# ---- pcapng writer ------------------------------------------------------------------------------
def _pad4(b):
    return b + b"\x00" * (-len(b) % 4)


def _block(btype, body):
    total = 12 + len(_pad4(body))
    return struct.pack("<II", btype, total) + _pad4(body) + struct.pack("<I", total)


def _opt(code, value):
    return struct.pack("<HH", code, len(value)) + _pad4(value)


def _ip_tcp(payload, rng, sport, dport, seq, flags=0x18, v6=False, addrs=None):
    tcp = struct.pack(">HHIIBBHHH", sport, dport, seq & 0xFFFFFFFF, 0, 5 << 4, flags, 65535, 0, 0)
    if v6:
        # the simulator reached over ::1
        lo = b"\x00" * 15 + b"\x01"
        return struct.pack(">IHBB", 0x60000000, len(tcp) + len(payload), 6, 64) + lo + lo + tcp + payload
    total = 20 + len(tcp) + len(payload)
    ip = struct.pack(">BBHHHBBH4s4s", 0x45, 0, total, rng.randrange(65536), 0x4000, 64, 6, 0,
                     *(addrs or (bytes((127, 0, 0, 1)), bytes((127, 0, 0, 1)))))
    return ip + tcp + payload


# first bytes of hardware addresses: any whose low nibble is < 5 (the raw-IP parser, which is tried first, then rejects the
# frame for its header length; the pinned tree mis-reads others, that is not what is being tested)
MAC_FIRST = [h << 4 | l_ for h in range(16) for l_ in range(5)]


def write_pcapng(messages, rng, noise=True, ether=None, mixed=None, pad=0):
    """pcapng capture of TPM traffic: one TCP packet per message, raw-IP or Ethernet (loopback MACs)
    framing, runt packets (< 10 payload bytes, e.g. mssim platform commands) interleaved, optional
    4-byte mssim trailer after responses, option blocks."""
    e_, m_ = noise and rng.random() < 0.5, noise and rng.random() < 0.3
    ether = e_ if ether is None else ether
    mixed = m_ if mixed is None else mixed     # two interfaces: loopback Ethernet and raw IP (tpm2-tss pcap TCTI)
    trailer = noise and rng.random() < 0.4
    opts = b""
    if noise and rng.random() < 0.5:
        opts = _opt(3, b"Linux") + _opt(4, b"tpmstream-verif") + _opt(0, b"")
    if pad:
        # a long section comment (capture tools record command lines, host descriptions ...): the capture gets tens of kB
        # long although it carries little traffic
        c = b""
        left = pad
        while left > 0:
            n = min(left, 65000)
            c += _opt(1, bytes(0x20 + (j * 7) % 90 for j in range(n)))
            left -= n
        opts = c + (opts or _opt(0, b""))
    out = _block(0x0A0D0D0A, struct.pack("<IHHq", 0x1A2B3C4D, 1, 0, -1) + opts)
    idb_opts = (_opt(2, b"lo") + _opt(0, b"")) if (noise and rng.random() < 0.5) else b""
    out += _block(1, struct.pack("<HHI", 1 if ether else 101, 0, 262144) + idb_opts)
    if mixed:
        out += _block(1, struct.pack("<HHI", 101 if ether else 1, 0, 262144))
    carried = []
    seq = rng.randrange(1 << 32)
    ts = rng.randrange(1 << 40)
    runts = 0

    psh = rng.random() < 0.6 if noise else True          # capture writers differ: PSH|ACK or ACK only on data segments
    two_way = noise and rng.random() < 0.5                  # responses travel the other way (own sequence numbers) or not
    seq_back = rng.randrange(1 << 32)
    clock_steps = noise and rng.random() < 0.25             # the capture clock is stepped back now and then
    v6 = noise and rng.random() < 0.15                      # localhost resolved to ::1 (Ethernet-framed packets only)
    n_pkt = 0
    # addresses: loopback as a rule; any host pair otherwise - among them hosts whose first octets are what another layer
    # would have at that offset of the frame (in a raw-IP frame the source address sits where an Ethernet frame has its type
    # field: 8.0.x.x reads 0x0800, 134.221.x.x reads 0x86dd)
    addrs = None
    if noise and rng.random() < 0.4:
        def host():
            r_ = rng.random()
            head = (8, 0) if r_ < 0.12 else (134, 221) if r_ < 0.2 else (8, 6) if r_ < 0.24 else (rng.choice((10, 172, 192, 100, 1, 223)), rng.randrange(256))
            return bytes(head + (rng.randrange(256), rng.randrange(1, 255)))
        addrs = (host(), host())
    # TCP retransmissions / frames recorded twice (bridges, `-i any`): the very same segment - addresses, ports, sequence
    # number, payload - appears again, at once or a few packets later.  The front-end is specified per packet.
    retransmit = noise and rng.random() < 0.15
    pending, resent = [], 0

    def packet(payload):
        nonlocal out, seq, ts, seq_back, n_pkt, resent
        back = two_way and n_pkt % 2 == 1
        n_pkt += 1
        if back:
            mk = lambda six, q=seq_back: _ip_tcp(payload, rng, 2321, 40000, q, 0x18 if psh else 0x10, v6=six, addrs=addrs and addrs[::-1])
            seq_back += len(payload)
        else:
            mk = lambda six, q=seq: _ip_tcp(payload, rng, 40000, 2321, q, 0x18 if psh else 0x10, v6=six, addrs=addrs)
            seq += len(payload)
        pkt = None
        if clock_steps and rng.random() < 0.3:
            ts -= rng.randrange(1, 10 ** 7)
        iface = rng.randrange(2) if mixed else 0
        eth = ether if iface == 0 else not ether
        pkt = mk(v6 and eth)
        if eth:
            mac = lambda: bytes([rng.choice(MAC_FIRST)]) + bytes(rng.randrange(256) for _ in range(5)) if noise and rng.random() < 0.5 else b"\x00" * 6
            pkt = mac() + mac() + (b"\x86\xdd" if v6 else b"\x08\x00") + pkt
        ts += rng.randrange(1, 5000)
        out += _block(6, struct.pack("<IIIII", iface, ts >> 32, ts & 0xFFFFFFFF, len(pkt), len(pkt)) + pkt)
        for k in range(len(pending) - 1, -1, -1):
            pending[k][0] -= 1
            if pending[k][0] <= 0:
                _, i2, p2 = pending.pop(k)
                ts += rng.randrange(1, 5000)
                out += _block(6, struct.pack("<IIIII", i2, ts >> 32, ts & 0xFFFFFFFF, len(p2), len(p2)) + p2)
                resent += 1
        if retransmit and rng.random() < 0.35:
            pending.append([rng.choice((0, 0, 1, 2, 5)), iface, pkt])
            if pending[-1][0] == 0:
                _, i2, p2 = pending.pop()
                ts += rng.randrange(1, 5000)
                out += _block(6, struct.pack("<IIIII", i2, ts >> 32, ts & 0xFFFFFFFF, len(p2), len(p2)) + p2)
                resent += 1

    for j, m in enumerate(messages):
        if noise and rng.random() < 0.3:
            packet(bytes(rng.randrange(256) for _ in range(rng.choice((0, 1, 4, 4, 8, 9)))))
            runts += 1
        p = bytes(m)
        if trailer and j % 2 == 1:
            p += b"\x00\x00\x00\x00"
        packet(p)
        carried.append(bytes(m))
    if noise and rng.random() < 0.2:
        packet(bytes(rng.randrange(256) for _ in range(rng.choice((0, 4)))))
        runts += 1
    return out, dict(ether=ether, mixed=mixed, trailer=trailer, runts=runts, options=bool(opts), resent=resent)


def ref_pcapng_carried(blob):
    """what the pcapng front-end is specified to deliver: payloads of >= 10 bytes, trimmed to their size field"""
    out = b""
    for p in ref_pcapng_payloads(blob):
        if len(p) < 10:
            continue
        size = int.from_bytes(p[2:6], "big")
        out += p[:size] if size != len(p) else p
    return out

"""Capture containers ("disk / wire"): writers with seeded layout noise and independent reference
readers for hex text, swtpm logs and pcapng captures."""
import struct


# ---- pcapng (reference reader, spec based: block type / total length framing) -----------------
def ref_pcapng_packets(blob):
    """[(linktype, packet bytes)] of all Enhanced Packet Blocks"""
    out = []
    off = 0
    endian = "<"
    ifaces = []
    while off + 12 <= len(blob):
        btype = struct.unpack_from(endian + "I", blob, off)[0]
        if btype == 0x0A0D0D0A:
            bom = blob[off + 8:off + 12]
            endian = "<" if bom == b"\x4d\x3c\x2b\x1a" else ">"
            ifaces = []
        blen = struct.unpack_from(endian + "I", blob, off + 4)[0]
        if blen < 12 or off + blen > len(blob):
            break
        body = blob[off + 8:off + blen - 4]
        if btype == 1:
            ifaces.append(struct.unpack_from(endian + "H", body, 0)[0])
        elif btype == 6:
            iface, _th, _tl, caplen, _plen = struct.unpack_from(endian + "IIIII", body, 0)
            lt = ifaces[iface] if iface < len(ifaces) else 1
            out.append((lt, body[20:20 + caplen]))
        off += blen
    return out


def _ip_payload(pkt):
    """IPv4 -> TCP payload (bytes) or None"""
    if len(pkt) < 20 or pkt[0] >> 4 != 4:
        return None
    ihl = (pkt[0] & 0xF) * 4
    total = struct.unpack_from(">H", pkt, 2)[0]
    proto = pkt[9]
    body = pkt[ihl:total] if total >= ihl else pkt[ihl:]
    if proto == 6:
        if len(body) < 20:
            return b""
        doff = (body[12] >> 4) * 4
        return body[doff:]
    if proto == 17:
        return body[8:]
    return body


def ref_pcapng_payloads(blob):
    """TPM payloads carried by a pcapng capture (no trimming, no skipping)"""
    out = []
    for lt, pkt in ref_pcapng_packets(blob):
        if lt == 1 and len(pkt) >= 14:      # Ethernet
            et = struct.unpack_from(">H", pkt, 12)[0]
            p = _ip_payload(pkt[14:]) if et == 0x0800 else None
        else:                               # raw IP (linktype 101 / 228) or anything else
            p = _ip_payload(pkt)
        if p is not None:
            out.append(bytes(p))
    return out

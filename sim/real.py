"""Adapter to the real code under test (tpmstream imported from VERIF_REPO_SRC, default /repo/src).

Everything the oracles know about tpmstream's objects is concentrated here: how to name an event's
type, how to summarise an error, how to call the front-ends.
"""
import traceback
from dataclasses import fields, is_dataclass

from tpmstream.common.error import (AnticipatedSizeConstraintExceededError, ConstraintViolatedError,
                                    InputStreamBytesDepletedError, InputStreamSuperfluousBytesError,
                                    SizeConstraintExceededError, SizeConstraintSubceededError,
                                    ValueConstraintViolatedError)
from tpmstream.common.event import MarshalEvent, WarningEvent
from tpmstream.common.util import is_list
from tpmstream.io.auto import Auto
from tpmstream.io.binary import Binary
from tpmstream.io.hex import Hex
from tpmstream.io.pcapng import Pcapng
from tpmstream.io.swtpm_log import SWTPMLog
from tpmstream.spec.commands import (Command, CommandResponseStream, Response,
                                     command_response_types)
from tpmstream.spec.commands.params_common import TPM2B_ENCRYPTED_PARAM
from tpmstream.spec.structures import structures_types

FRONTS = {"binary": Binary, "hex": Hex, "swtpm": SWTPMLog, "pcapng": Pcapng, "auto": Auto}
DOCUMENTED = (ConstraintViolatedError, InputStreamBytesDepletedError, InputStreamSuperfluousBytesError)

_TYPES = None


def types():
    global _TYPES
    if _TYPES is None:
        _TYPES = {t.__name__: t for t in structures_types}
        _TYPES["TPM2B_ENCRYPTED_PARAM"] = TPM2B_ENCRYPTED_PARAM
        by_name = {t.__name__: t for t in command_response_types}
        # area types: same keys as the snapshot ("#<table>" suffix where two types share a name)
        from tpmstream.spec.structures.constants import TPM_CC
        seen = {}
        for cc in TPM_CC:
            for fam, tab in (("cmd_handles", Command._type_maps["handles"]),
                             ("cmd_params", Command._type_maps["parameters"]),
                             ("rsp_handles", Response._type_maps["handles"]),
                             ("rsp_params", Response._type_maps["parameters"])):
                t = tab[cc]
                if id(t) not in seen:
                    key = t.__name__
                    if key in _TYPES:
                        key = key + "#" + fam
                    seen[id(t)] = key
                    _TYPES[key] = t
        for n, t in by_name.items():
            _TYPES.setdefault(n, t)      # area types no table refers to (any more) are still decodable by name
        for t in (Command, Response, CommandResponseStream):
            _TYPES[t.__name__] = t
        from tpmstream.spec.commands.params_common import TPMS_PARAMS
        _TYPES.setdefault("TPMS_PARAMS", TPMS_PARAMS)
    return _TYPES


def get_type(name):
    try:
        return types()[name]
    except KeyError:
        from . import synth
        return synth.real_types()[name]


def tdesc(t):
    if t is None:
        return None
    if is_list(t):
        return "list[%s]" % t.__args__[0].__name__
    return getattr(t, "__name__", repr(t))


def fieldsig(t):
    if t in (Command, Response) or is_list(t) or not is_dataclass(t):
        return None
    return tuple((f.name, tdesc(f.type)) for f in fields(t))


_ROOT_CACHE = {}


def parse_root(s):
    """'capture.msg[3]' -> Path (the caller-chosen root under which a value is decoded); '' -> None (default root).  A
    leading '~' asks for the other way a caller can write the same thing down: Path.from_string, whose nodes keep an index
    as part of the node *name* - the two paths print identically and are different paths"""
    if not s:
        return None
    if s in _ROOT_CACHE:
        return _ROOT_CACHE[s]
    import re
    from tpmstream.common.path import Path, PathNode
    if s.startswith("~"):
        p = Path.from_string(s[1:])
    else:
        nodes = []
        for seg in s.split("."):
            m = re.fullmatch(r"([^\[\]]*)(?:\[(\d+)\])?", seg)
            nodes.append(PathNode(m.group(1), None if m.group(2) is None else int(m.group(2))))
        p = Path(nodes)
    _ROOT_CACHE[s] = p
    return p


def unroot(path, root=""):
    """string form of a path relative to the root the decode was started under (the oracles work with paths relative to
    the default root); a path that does not lie under the root - node by node, with == - is marked: it can never match an
    expectation"""
    s = str(path)
    if not root:
        return s
    r = parse_root(root)
    if tuple(path[:len(r)]) != tuple(r):
        return "!not-under-root(%s)" % s
    root = root.lstrip("~")
    if s == root:
        return ""
    if s.startswith(root + "."):
        return s[len(root):]
    return "!not-under-root(%s)" % s


def ev_item(e, root=""):
    """comparable form of an event (mirrors model items, without offsets)"""
    if isinstance(e, MarshalEvent):
        if e.value is ...:
            return ("S", unroot(e.path, root), tdesc(e.type), fieldsig(e.type))
        return ("P", unroot(e.path, root), tdesc(e.type), int(e.value), type(e.value).__name__)
    if isinstance(e, WarningEvent):
        return ("W",) + errsum(e.error, root=root)
    return ("?", repr(e))


def model_item(it):
    """model item -> the same comparable form"""
    if it[0] == "S":
        sig = it[3] if it[2] not in ("Command", "Response") else None
        return ("S", it[1], it[2], sig)
    return ("P", it[1], it[2], it[3], it[2])


def _cc(v):
    return None if v is None else int(v)


def errsum(exc, remaining=None, root=""):
    """summary tuple of an exception: class name + the detail attributes the properties name"""
    n = type(exc).__name__
    try:
        if isinstance(exc, ValueConstraintViolatedError):
            c = exc.constraint
            return (n, unroot(c.constraint_path, root), tdesc(c.tpm_type), None if exc.value is None else int(exc.value))
        if isinstance(exc, AnticipatedSizeConstraintExceededError):
            c = exc.constraint
            return (n, unroot(c.constraint_path, root), c.size_max, c.size_already, unroot(exc.violator_path, root),
                    int(exc.violator_value), int(exc.exceeded_by))
        if isinstance(exc, SizeConstraintExceededError):
            c = exc.constraint
            return (n, unroot(c.constraint_path, root), c.size_max, c.size_already, unroot(exc.violator_path, root),
                    int(exc.exceeded_by))
        if isinstance(exc, SizeConstraintSubceededError):
            c = exc.constraint
            return (n, unroot(c.constraint_path, root), c.size_max, c.size_already)
        if isinstance(exc, InputStreamBytesDepletedError):
            return (n, _cc(exc.command_code))
        if isinstance(exc, InputStreamSuperfluousBytesError):
            return (n, bytes(exc.bytes_remaining).hex(), _cc(exc.command_code))
    except Exception as e:  # a malformed error object is itself reportable
        return (n, "unsummarisable: %s: %s" % (type(e).__name__, e))
    return (n, str(exc)[:160])


def raise_site(exc):
    """innermost tpmstream frame that raised (function name), for defect signatures"""
    seen = 0
    while exc is not None and seen < 4:
        tb = traceback.extract_tb(exc.__traceback__)
        for fr in reversed(tb):
            if "/tpmstream/" in fr.filename:
                return "%s:%s" % (fr.filename.rsplit("tpmstream/", 1)[-1], fr.name)
        exc = exc.__cause__ or exc.__context__
        seen += 1
    return "?"


def is_documented(exc):
    return isinstance(exc, DOCUMENTED)


def marshal(front, tname, buffer, cc=None, enc=None, strict=True, root=""):
    """the generator of the requested front-end"""
    t = get_type(tname)
    kw = dict(tpm_type=t, buffer=buffer, command_code=cc, abort_on_error=strict)
    if root:
        kw["root_path"] = parse_root(root)
    if enc is not None:
        kw["parameter_encryption"] = enc
    return FRONTS[front].marshal(**kw)


def api_noise(seed):
    """Calls of public, supposedly pure helpers of the library between decodes (a tool built on tpmstream does such
    things all the time): filtered algorithm views, enum iteration / membership / construction, named ranges, text forms,
    attribute listings.  Returns the number of calls made; what they return is not judged, only that decoding before and
    after them is the same."""
    import random
    from tpmstream.spec.structures import constants as C
    from tpmstream.spec.structures import structures_types
    rng = random.Random(seed)
    n = 0
    prims = [t for t in structures_types if hasattr(t, "_int_size")]
    for _ in range(rng.randint(2, 8)):
        k = rng.randrange(9)
        try:
            if k == 0:
                C.TPM_ALG.by_type_exactly(*rng.sample(list(C.AlgType), rng.randint(1, 2)))
            elif k == 1:
                C.TPM_ALG.by_type_at_least(rng.choice(list(C.AlgType)))
            elif k == 2:
                list(rng.choice((C.TPM_ALG, C.TPM_CC, C.TPM_ST, C.TPM_ECC_CURVE, C.TPM_RC if hasattr(C, "TPM_RC") else C.TPM_CC)))
            elif k == 3:
                t = rng.choice(prims)
                v = t(rng.choice((0, 1, 4, 0x0B, 0x10, 0x60, 0x8001, 0x17B, 0x40000001, 0x81000000)))
                "{}".format(v), str(v), repr(v), int(v), v.is_valid(), hash(v)
            elif k == 4:
                t = rng.choice(prims)
                rng.choice((0, 1, 4, 0x0B, 0x10, 0x17B)) in t._valid_values
                iter(t._valid_values)
            elif k == 5:
                t = rng.choice([x for x in prims if hasattr(x, "attributes")])
                v = t(rng.choice((0, 1, 0x20, 0x40, 0x60, 0xF6, 0xFF)))
                [(getattr(v, a._name), "{}".format(a)) for a in v.attributes()]
            elif k == 6:
                C.TPM_ALG.filter(lambda name, attr: name.startswith("S"))
            elif k == 7:
                C.TPM_CC(rng.choice((0x17B, 0x144, 0x11E, 0)))
                C.TPM_ALG(rng.choice((1, 4, 0x0B, 0x7FFF)))
            else:
                from tpmstream.common.path import Path
                Path.from_string(rng.choice((".", ".a.b", "x.y")))
        except Exception:
            pass
        n += 1
    return n

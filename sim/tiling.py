"""Model-light tiling checker for warn-mode event streams (C08.b).

Walks the events with a *set* of candidate input positions P (initially {0}):
 * a primitive event must re-encode to input[p:p+w] for some p in P; P := the surviving p+w;
 * a maximal group of consecutive warnings wrapping exceeded / subceeded reports for regions R1..Rk
   (start and declared end computed from the event stream itself) replaces P by
   {max(p, end(Ri)) : p in P, i in 1..k} - decoding must resume exactly at an end one of the
   just-reported size fields declares, never before the current position;
 * anticipation and value warnings move nothing;
 * a superfluous warning must be last and list exactly input[p:] for some p in P; a depleted warning
   must be last; otherwise len(input) must be in P at the end.
Candidates only ever make the check weaker, never unsound.
"""
from .layout import layout

MSG_SIZES = ("commandSize", "responseSize")


def width_and_bytes(item, event=None):
    """(width, encoding) of a primitive item from the pinned layout (falls back to the event)"""
    L = layout()
    t = L.types.get(item[2])
    if t is not None and t["kind"] == "prim":
        try:
            return t["size"], int(item[3]).to_bytes(t["size"], "big", signed=t["signed"])
        except OverflowError:
            return t["size"], None
    if event is not None:
        b = event.value.to_bytes()
        return len(b), b
    return None, None


def check(items, data, events=None, escaped=None):
    """items: comparable items of a warn-mode decode; escaped: kind of the escaping exception or None.
    -> (ok, message, stats)"""
    P = {0}
    stats = {"skips": 0, "candidates_max": 1}
    msg_start = {0}
    after = {}          # path -> candidate positions right after the most recent primitive with that path
    n = len(items)
    i = 0
    while i < n:
        it = items[i]
        if it[0] == "S":
            if it[1] == "" and it[2] in ("Command", "Response"):
                msg_start = set(P)
                after = {}
            i += 1
            continue
        if it[0] == "P":
            w, enc = width_and_bytes(it, events[i] if events else None)
            if w is None:
                return False, "event %d %r: width unknown" % (i, it), stats
            nxt = {p + w for p in P if data[p:p + w] == enc and p + w <= len(data)}
            if not nxt:
                return False, "event %d %s=%s (%s) is not the next input bytes at any candidate position %s (input there: %s)" % (
                    i, it[1], enc.hex() if enc is not None else it[3], it[2], sorted(P)[:6],
                    [data[p:p + w].hex() for p in sorted(P)[:3]]), stats
            P = nxt
            after[it[1]] = set(P)
            if it[1] == "":
                msg_start = set(P)
            i += 1
            continue
        if it[0] == "W":
            # maximal group of consecutive warnings
            j = i
            ends = set()
            moved = False
            while j < n and items[j][0] == "W":
                wi = items[j]
                cls = wi[1]
                if cls in ("SizeConstraintExceededError", "SizeConstraintSubceededError"):
                    cpath, limit = wi[2], int(wi[3])
                    last = cpath.rsplit(".", 1)[-1]
                    if last in MSG_SIZES and cpath.count(".") == 1:
                        starts = msg_start
                    else:
                        starts = after.get(cpath)
                    if not starts:
                        return False, "warning %d reports region %s whose size field was never emitted" % (j, cpath), stats
                    ends |= {s + limit for s in starts}
                    moved = True
                elif cls == "InputStreamSuperfluousBytesError":
                    if moved:
                        P = {max(p, e) for p in P for e in ends}
                        stats["skips"] += 1
                        moved = False
                    if j != n - 1:
                        return False, "superfluous warning at %d is not the last event" % j, stats
                    surplus = bytes.fromhex(wi[2])
                    if not any(data[p:] == surplus for p in P) or not surplus:
                        return False, "superfluous warning lists %s, candidates %s leave %s" % (
                            wi[2], sorted(P)[:4], [data[p:].hex()[:40] for p in sorted(P)[:3]]), stats
                    return True, "", stats
                elif cls == "InputStreamBytesDepletedError":
                    if j != n - 1:
                        return False, "depleted warning at %d is not the last event" % j, stats
                    return True, "", stats
                j += 1
            if moved:
                P = {max(p, e) for p in P for e in ends}
                stats["skips"] += 1
            stats["candidates_max"] = max(stats["candidates_max"], len(P))
            i = j
            continue
        return False, "unknown item %r" % (it,), stats
    if escaped is not None:
        return True, "", stats
    if len(data) not in P:
        return False, "decoding ended at candidate positions %s but the input has %d bytes and no surplus / depleted warning was given" % (
            sorted(P)[:6], len(data)), stats
    return True, "", stats

"""Model-light tiling checker for warn-mode event streams (C08.b).

Walks the events with a small *set of candidate decoder states* (initially one, at input position 0).  A state is
(pos, base, message start, position after each size field seen so far):
 * a primitive event must re-encode to input[pos:pos+w]; the state advances (states that do not match die);
 * a maximal group of consecutive warnings wrapping exceeded / subceeded reports for regions R1..Rk (start and
   declared end computed from the state itself: the position after the event whose path is the reported
   constraint path, or the message start for commandSize / responseSize, plus the reported limit) forks the state:
   decoding must resume exactly at an end one of the just-reported size fields declares.  An end that lies beyond the
   end of another region of the same group that encloses it does not count (the enclosing region was reported as
   violated too).  A region may be reported with its declared end already *behind* the current position only if that
   position was reached by consuming fields (e.g. a commandSize smaller than its own header), not if an earlier
   skip carried the decoder across that end;
 * anticipation and value warnings move nothing;
 * a superfluous warning must be last and list exactly input[pos:]; a depleted warning must be last; otherwise some
   state must end at len(input).
Several candidate states only ever make the check weaker, never unsound.
"""
from .layout import layout

MSG_SIZES = ("commandSize", "responseSize")
MAX_STATES = 16


def width_and_bytes(item, event=None):
    """(width, encoding) of a primitive item from the pinned layout (falls back to the event)"""
    L = layout()
    t = L.types.get(item[2])
    if t is not None and t["kind"] == "prim":
        try:
            return t["size"], int(item[3]).to_bytes(t["size"], "big", signed=t["signed"])
        except OverflowError:
            return t["size"], None
    if event is not None:
        b = event.value.to_bytes()
        return len(b), b
    return None, None


class State:
    __slots__ = ("pos", "base", "mstart", "after")

    def __init__(self, pos=0, base=0, mstart=0, after=None):
        self.pos = pos
        self.base = base          # position reached by consuming fields (skips do not move it)
        self.mstart = mstart      # start of the current message
        self.after = after if after is not None else {}

    def fork(self, pos):
        return State(pos, self.base, self.mstart, self.after)

    def key(self):
        return (self.pos, self.base, self.mstart)


def admissible_ends(spans):
    out = set()
    for s, e in spans:
        if any((s2 <= s <= e2) and e > e2 and (s2, e2) != (s, e) for s2, e2 in spans):
            continue
        out.add(e)
    return out or {e for _s, e in spans}


def check(items, data, events=None, escaped=None):
    """items: comparable items of a warn-mode decode; escaped: kind of the escaping exception or None.
    -> (ok, message, stats)"""
    states = [State()]
    stats = {"skips": 0, "candidates_max": 1}
    n = len(items)
    i = 0
    why = ""
    while i < n:
        it = items[i]
        if it[0] == "S":
            if it[1] == "" and it[2] in ("Command", "Response"):
                for st in states:
                    st.mstart = st.pos
                    st.after = {}
                # where (by every candidate) the last message root was announced: a root announced when no byte is left
                stats["last_root_at_end"] = all(st.pos >= len(data) for st in states)
            i += 1
            continue
        if it[0] == "P":
            w, enc = width_and_bytes(it, events[i] if events else None)
            if w is None:
                return False, "event %d %r: width unknown" % (i, it), stats
            nxt = []
            for st in states:
                if data[st.pos:st.pos + w] == enc and st.pos + w <= len(data):
                    st.pos += w
                    st.base = st.pos
                    st.after = dict(st.after)
                    st.after[it[1]] = st.pos
                    if it[1] == "":
                        st.mstart = st.pos
                    nxt.append(st)
            if not nxt:
                ps = sorted(st.pos for st in states)
                return False, "event %d %s=%s (%s) is not the next input bytes at any candidate position %s (input there: %s)%s" % (
                    i, it[1], enc.hex() if enc is not None else it[3], it[2], ps[:6],
                    [data[p:p + w].hex() for p in ps[:3]], ("; " + why) if why else ""), stats
            states = nxt
            i += 1
            continue
        if it[0] == "W":
            j = i
            group = []
            last = None
            while j < n and items[j][0] == "W":
                wi = items[j]
                if wi[1] in ("SizeConstraintExceededError", "SizeConstraintSubceededError"):
                    group.append((wi[2], int(wi[3])))
                elif wi[1] in ("InputStreamSuperfluousBytesError", "InputStreamBytesDepletedError"):
                    if j != n - 1:
                        return False, "%s warning at %d is not the last event" % (wi[1], j), stats
                    last = wi
                j += 1
            if group:
                nxt = {}
                for st in states:
                    spans = []
                    opened = {}
                    ok = True
                    for cpath, limit in group:
                        tail = cpath.rsplit(".", 1)[-1]
                        if tail in MSG_SIZES and cpath.count(".") == 1:
                            s = st.mstart
                        else:
                            s = st.after.get(cpath)
                        if s is None:
                            ok = False
                            why = "warning %d reports region %s whose size field was never emitted" % (i, cpath)
                            break
                        spans.append((s, s + limit))
                        opened[s + limit] = max(opened.get(s + limit, -1), st.after.get(cpath, s))
                    if not ok:
                        continue
                    for e in admissible_ends(spans):
                        if e >= st.pos:
                            c = st.fork(e)
                        elif st.base >= e and e <= opened.get(e, -1):
                            # the declared end was already behind the decoder when the size field had just been read (a
                            # commandSize smaller than its own header): nothing to skip, decoding goes on where it is.  A
                            # field consumed across an end that still lay ahead is a different matter - no field's bytes may
                            # come from behind the end a size field declares
                            c = st.fork(st.pos)
                        else:
                            why = ("warning group at event %d: region with declared end %d is reported at position %d - reached by a skip "
                                   "that crossed that end or by fields whose bytes lie behind it (fields were consumed up to %d)" % (i, e, st.pos, st.base))
                            continue
                        nxt.setdefault(c.key(), c)
                if not nxt:
                    return False, why or "warning group at event %d cannot be placed" % i, stats
                states = list(nxt.values())[:MAX_STATES]
                stats["skips"] += 1
                stats["candidates_max"] = max(stats["candidates_max"], len(states))
            if last is not None:
                if last[1] == "InputStreamBytesDepletedError":
                    return True, "", stats
                surplus = bytes.fromhex(last[2])
                if not surplus or not any(data[st.pos:] == surplus for st in states):
                    ps = sorted(st.pos for st in states)
                    return False, "superfluous warning lists %s, candidates %s leave %s" % (
                        last[2], ps[:4], [data[p:].hex()[:40] for p in ps[:3]]), stats
                return True, "", stats
            i = j
            continue
        return False, "unknown item %r" % (it,), stats
    if escaped is not None:
        return True, "", stats
    if not any(st.pos == len(data) for st in states):
        ps = sorted(st.pos for st in states)
        return False, "decoding ended at candidate positions %s but the input has %d bytes and no surplus / depleted warning was given%s" % (
            ps[:6], len(data), ("; " + why) if why else ""), stats
    return True, "", stats

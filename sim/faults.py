"""Fault operators on stored bytes, steered by the reference decode of the well-formed original.

Every operator returns (new_bytes, record) or None when it cannot apply; `record` says what fired
and in which reference context (field class, depth of open regions), so that evidence counts faults
that *fired*, not faults that were configured.
"""
from .layout import layout

STRUCTURAL = ("size", "count", "selector", "tag", "rc", "attr", "cc")


def field_classes(o):
    """item index -> class of structural field"""
    cls = {}
    for i, _r in o.sizefields:
        cls[i] = "size"
    for i in o.counts:
        cls.setdefault(i, "count")
    for i in o.selectors:
        cls.setdefault(i, "selector")
    for i in o.tags:
        cls.setdefault(i, "tag")
    for i in o.rcs:
        cls.setdefault(i, "rc")
    for i in o.attrs:
        cls.setdefault(i, "attr")
    for i in o.ccs:
        cls.setdefault(i, "cc")
    return cls


def depth_at(o, off):
    """number of sized regions (with a declared size) that contain the byte at `off`"""
    d = 0
    for r in o.regions:
        if r.max is not None and r.start <= off < r.start + r.max:
            d += 1
    return d


def region_kinds_at(o, off):
    return tuple(r.kind for r in o.regions if r.max is not None and r.start <= off < r.start + r.max)


def put(data, it, value):
    size, signed = it[5], layout().types[it[2]]["signed"]
    lo, hi = layout().bounds(it[2])
    if not lo <= value <= hi:
        return None
    b = bytearray(data)
    b[it[4]:it[4] + size] = int(value).to_bytes(size, "big", signed=signed)
    return bytes(b)


def _rec(kind, o, it, idx, **kw):
    cls = field_classes(o).get(idx, "leaf")
    r = dict(kind=kind, item=idx, path=it[1], type=it[2], off=it[4], cls=cls, depth=depth_at(o, it[4]),
             regions=list(region_kinds_at(o, it[4])))
    r.update(kw)
    return r


# ---- size fields ---------------------------------------------------------------------------------
def uniform_deltas(o):
    """[(start, end, deltas)] for every list whose elements differ in size: what a size computed as count x (size of the
    first / last / largest / smallest element) is off by"""
    cached = getattr(o, "_uniform_deltas", None)
    if cached is not None:
        return cached
    out = []
    for j, it in enumerate(o.items):
        if it[0] != "S" or not str(it[2]).startswith("list["):
            continue
        pre = it[1] + "["
        inside = []
        for x in o.items[j + 1:]:           # the contiguous block below this list (paths repeat from message to message)
            if not x[1].startswith(pre):
                break
            if x[0] == "P":
                inside.append(x)
        if len(inside) < 2:
            continue
        start, end = inside[0][4], inside[-1][4] + inside[-1][5]
        starts = {}
        for x in inside:
            k = x[1][len(pre):].split("]", 1)[0]
            starts.setdefault(k, x[4])
        offs = sorted(starts.values()) + [end]
        sizes = [b - a for a, b in zip(offs, offs[1:])]
        if len(set(sizes)) > 1:
            n, tot = len(sizes), sum(sizes)
            dd = sorted(set(n * z - tot for z in (sizes[0], sizes[-1], max(sizes), min(sizes))) - {0})
            out.append((start, end, dd))
    try:
        o._uniform_deltas = out
    except Exception:
        pass
    return out


def size_variants(o, idx, rng=None, full=False):
    """candidate new values for the size field at item idx"""
    it = o.items[idx]
    old = it[3]
    lo, hi = layout().bounds(it[2])
    nxt = _next_width(o, idx)
    c = [old - 1, old + 1, old - 2, old + 2, old + nxt, old - nxt, 0, hi, old + 1000, old + 256]
    if rng is not None:
        c.append(rng.randint(lo, min(hi, 70000)))
        c.append(rng.randint(lo, hi))
        # a relation between two fields: the size equals another size / count / length of the same message (the limit of
        # an enclosing region, sizeofSelect, a digest length), or the region ends exactly where a later field starts
        others = sorted(set([o.items[i][3] for i, _r in o.sizefields if i != idx] + [o.items[i][3] for i in o.counts if i >= 0] + [20, 32, 48, 64]))
        c += rng.sample(others, min(3, len(others)))
        reg0 = next((o.regions[r] for i, r in o.sizefields if i == idx), None)
        if reg0 is not None and reg0.max is not None:
            # a list inside the region whose elements differ in size: off by (count x size of one element) - (sum of the sizes)
            ds = [d for a, b, dd in uniform_deltas(o) if reg0.start <= a and b <= reg0.start + reg0.max for d in dd]
            if ds:
                c += [old + d for d in rng.sample(ds, min(3, len(ds)))]
        if reg0 is not None:
            later = [x[4] - reg0.start for x in o.items[idx + 1:idx + 40] if x[0] == "P" and x[4] - reg0.start > 0]
            if later:
                c += rng.sample(later, min(2, len(later)))
    # declared end just beyond / exactly at the end of each enclosing region (padding then crosses that end)
    reg = next((o.regions[r] for i, r in o.sizefields if i == idx), None)
    if reg is not None and reg.max is not None:
        for e in o.regions:
            if e is not reg and e.max is not None and e.start <= reg.start and e.start + e.max >= reg.start + reg.max:
                slack = (e.start + e.max) - (reg.start + reg.max)
                c += [old + slack + 1, old + slack + 2, old + slack + 9, old + slack]
    seen, out = set(), []
    for v in c:
        if lo <= v <= hi and v != old and v not in seen:
            seen.add(v)
            out.append(v)
    return out


def _next_width(o, idx):
    for it in o.items[idx + 1:]:
        if it[0] == "P":
            return it[5]
    return 1


def fault_size(data, o, rng, idx=None, value=None):
    if not o.sizefields:
        return None
    if idx is None:
        idx = rng.choice(o.sizefields)[0]
    it = o.items[idx]
    if value is None:
        value = rng.choice(size_variants(o, idx, rng))
    nd = put(data, it, value)
    if nd is None:
        return None
    region = next(o.regions[r] for i, r in o.sizefields if i == idx)
    return nd, _rec("size", o, it, idx, old=it[3], new=value, region=region.kind,
                    delta=("0" if value == 0 else "max" if value == layout().bounds(it[2])[1] else
                           "minus" if value < it[3] else "plus"))


def fault_straddle(data, o, rng):
    """two (or more) nested regions are made to end inside the same multi-byte field"""
    size_item = {ri: idx for idx, ri in o.sizefields}
    cands = []
    for i, it in enumerate(o.items):
        if it[0] != "P" or it[5] < 2:
            continue
        regs = [ri for ri, r in enumerate(o.regions) if r.max is not None and ri in size_item
                and size_item[ri] < i and r.start <= it[4] < r.start + r.max]
        if len(regs) >= 2:
            cands.append((i, regs))
    if not cands:
        return None
    i, regs = rng.choice(cands)
    it = o.items[i]
    chosen = regs if rng.random() < 0.5 else rng.sample(regs, 2)
    cur = data
    recs = []
    for ri in chosen:
        r = o.regions[ri]
        end = it[4] + rng.randint(1, it[5] - 1)
        new = end - r.start
        sit = o.items[size_item[ri]]
        nd = put(cur, sit, new)
        if nd is None or new < 0:
            continue
        cur = nd
        recs.append(_rec("size", o, sit, size_item[ri], old=sit[3], new=new, region=r.kind, delta="straddle"))
    if len(recs) < 2:
        return None
    return cur, recs


def fault_nested_pair(data, o, rng):
    """two cooperating size faults on nested regions: the outer one (A, itself nested in something) declares an end at /
    beyond / far beyond the end of its enclosing region (so it is *anticipated*, not entered normally), the inner one (B,
    inside A) ends inside a multi-byte field, one byte short or a few bytes long - recovery of B must still be
    charged to every region around A"""
    size_item = {ri: idx for idx, ri in o.sizefields}
    regs = [(ri, r) for ri, r in enumerate(o.regions) if r.max is not None and ri in size_item]
    pairs = []
    for ai, a in regs:
        if depth_at(o, o.items[size_item[ai]][4]) < 1:
            continue        # A must have an enclosing region
        for bi, b in regs:
            if bi != ai and a.start <= b.start and b.start + b.max <= a.start + a.max and size_item[bi] > size_item[ai] and b.max >= 2:
                pairs.append((ai, bi))
    if not pairs:
        return None
    ai, bi = rng.choice(pairs)
    a, b = o.regions[ai], o.regions[bi]
    ita, itb = o.items[size_item[ai]], o.items[size_item[bi]]
    va = size_variants(o, size_item[ai])
    beyond = va[10:] or va
    new_a = rng.choice(beyond if rng.random() < 0.7 else va)
    inner = [it for it in o.items[size_item[bi] + 1:] if it[0] == "P" and it[5] >= 2 and b.start <= it[4] and it[4] + it[5] <= b.start + b.max]
    r = rng.random()
    if inner and r < 0.6:
        it = rng.choice(inner)
        new_b = it[4] + rng.randint(1, it[5] - 1) - b.start
        delta = "straddle"
    elif r < 0.8:
        new_b = b.max - rng.randint(1, min(4, b.max))
        delta = "minus"
    else:
        new_b = b.max + rng.randint(1, 4)
        delta = "plus"
    cur = put(data, ita, new_a)
    if cur is None:
        return None
    cur2 = put(cur, itb, new_b)
    if cur2 is None or new_b < 0:
        return None
    return cur2, [_rec("size", o, ita, size_item[ai], old=ita[3], new=new_a, region=a.kind, delta="beyond" if new_a in beyond else "variant"),
                  _rec("size", o, itb, size_item[bi], old=itb[3], new=new_b, region=b.kind, delta=delta)]


def enclosing_chains(o, min_depth=2):
    """for every primitive item: the sized regions (those with a size field of their own) that enclose it, outermost first"""
    size_item = {ri: idx for idx, ri in o.sizefields}
    regs = [(ri, r) for ri, r in enumerate(o.regions) if r.max is not None and ri in size_item]
    out = []
    for idx, it in enumerate(o.items):
        if it[0] != "P":
            continue
        enc = [(ri, r) for ri, r in regs if size_item[ri] < idx and r.start <= it[4] and it[4] + it[5] <= r.start + r.max]
        if len(enc) >= min_depth:
            out.append((idx, sorted(enc, key=lambda x: (x[1].start, -x[1].max, x[0]))))
    return out


def fault_nested_chain(data, o, rng, chains=None):
    """k >= 2 cooperating size faults on regions nested in one another: every one of them is made to end inside (or right in
    front of) the *same* primitive field, the ends ordered inner <= outer as a rule - one field overruns two, three or
    more regions at once, by different amounts.  Whatever is charged, skipped and reported for the region the error names
    must not depend on how many regions inside it were overrun too."""
    size_item = {ri: idx for idx, ri in o.sizefields}
    chains = chains if chains is not None else enclosing_chains(o)
    if not chains:
        return None
    deepest = max(len(c) for _, c in chains)
    pool = [x for x in chains if len(x[1]) == deepest] if rng.random() < 0.7 else chains
    wide = [x for x in pool if o.items[x[0]][5] >= 2]
    idx, chain = rng.choice(wide if (wide and rng.random() < 0.85) else pool)
    it = o.items[idx]
    if len(chain) > 2 and rng.random() < 0.25 and it[5] >= 2:
        # only the innermost of three or more nested regions ends inside the field: the skipped rest must be charged to
        # *every* region around it, not only to the next one
        ri, r = chain[-1]
        sit = o.items[size_item[ri]]
        new = it[4] + rng.randrange(1, it[5]) - r.start
        nxt = put(data, sit, new) if new >= 0 and new != sit[3] else None
        if nxt is not None:
            return nxt, [_rec("size", o, sit, size_item[ri], old=sit[3], new=new, region=r.kind, delta="chain-innermost")]
    if len(chain) > 2 and rng.random() < 0.4:
        keep = sorted(rng.sample(range(len(chain)), rng.randint(2, len(chain))))
        chain = [chain[k] for k in keep]
    ends = sorted(it[4] + rng.randrange(0, it[5]) for _ in chain)      # offsets at which the regions end; outermost last
    if rng.random() < 0.3:
        # the regions around the innermost one end a little later, inside (or in front of) fields that follow: the rest that
        # was skipped for the innermost region must already count for them when those fields are reached
        later = [x for x in o.items[idx + 1:idx + 25] if x[0] == "P"]
        if later:
            ends = [ends[0]] + sorted(x[4] + rng.randrange(0, x[5]) for x in (rng.choice(later) for _ in chain[1:]))
    ends.reverse()                                                      # chain is outermost first
    if rng.random() < 0.12:
        rng.shuffle(ends)                                               # an inner region reaching beyond an outer one: anticipated
    cur, recs = data, []
    for (ri, r), e in zip(chain, ends):
        sit = o.items[size_item[ri]]
        new = e - r.start
        if new < 0 or new == sit[3]:
            continue
        nxt = put(cur, sit, new)
        if nxt is None:
            return None
        cur = nxt
        recs.append(_rec("size", o, sit, size_item[ri], old=sit[3], new=new, region=r.kind, delta="chain"))
    if len(recs) < 2:
        return None
    return cur, recs


def fault_end_at_selector(data, o, rng):
    """two coordinated faults: a union selector is made invalid (selects no member) and an enclosing sized region is made to
    end exactly behind the selector, i.e. exactly where the union would start - nothing is left over, nothing is missing,
    only the layout is unknowable"""
    size_item = {ri: idx for idx, ri in o.sizefields}
    cands = []
    for si in o.selectors:
        it = o.items[si]
        for ri, r in enumerate(o.regions):
            if r.max is not None and ri in size_item and size_item[ri] < si and r.start <= it[4] < r.start + r.max:
                cands.append((si, ri))
    if not cands:
        return None
    si, ri = rng.choice(cands)
    it, r = o.items[si], o.regions[ri]
    vs = outside_values(it[2], rng)
    if not vs:
        return None
    cur = put(data, it, rng.choice(vs))
    sit = o.items[size_item[ri]]
    new = it[4] + it[5] - r.start
    cur2 = put(cur, sit, new) if cur is not None else None
    if cur2 is None:
        return None
    return cur2, [_rec("selector_invalid", o, it, si, old=it[3], new=int.from_bytes(cur[it[4]:it[4] + it[5]], "big")),
                  _rec("size", o, sit, size_item[ri], old=sit[3], new=new, region=r.kind, delta="ends-at-union")]


def fault_count(data, o, rng):
    if not o.counts:
        return None
    idx = rng.choice(o.counts)
    it = o.items[idx]
    lo, hi = layout().bounds(it[2])
    v = rng.choice([it[3] + 1, it[3] - 1, it[3] + 2, 0, rng.randint(0, 40), hi])
    if v == it[3] or not lo <= v <= hi:
        return None
    nd = put(data, it, v)
    return nd, _rec("count", o, it, idx, old=it[3], new=v)


# ---- value faults --------------------------------------------------------------------------------
def constrained_leaves(o, value_only=False):
    """item indices of primitives whose type allows less than its width"""
    L = layout()
    cls = field_classes(o)
    out = []
    for i, it in enumerate(o.items):
        if it[0] != "P":
            continue
        lo, hi = L.bounds(it[2])
        iv = L.types[it[2]]["valid"]
        if len(iv) == 1 and iv[0][0] <= lo and iv[0][1] >= hi:
            continue
        if value_only and i in cls:
            continue
        out.append(i)
    return out


def outside_values(tname, rng=None, far=True):
    """values just outside each allowed interval (and one far outside), representable and invalid"""
    L = layout()
    lo, hi = L.bounds(tname)
    iv = L.types[tname]["valid"]
    c = []
    for a, b in iv:
        c += [a - 1, b + 1]
    if far:
        c += [lo, hi, (lo + hi) // 2]
        if rng is not None:
            c += [rng.randint(lo, hi) for _ in range(3)]
    out = []
    for v in c:
        if lo <= v <= hi and not L.valid(tname, v) and v not in out:
            out.append(v)
    return out


def boundary_values(tname):
    out = []
    for a, b in layout().types[tname]["valid"]:
        for v in (a, b):
            if v not in out:
                out.append(v)
    return out


def neighbour_values(o, idx, span=8):
    """values of the primitive fields around item idx that the type of item idx does not allow (and can represent)"""
    it = o.items[idx]
    L = layout()
    lo, hi = L.bounds(it[2])
    out = []
    for j in range(max(0, idx - span), min(len(o.items), idx + span + 1)):
        x = o.items[j]
        if j != idx and x[0] == "P" and isinstance(x[3], int) and lo <= x[3] <= hi and not L.valid(it[2], x[3]) and x[3] not in out:
            out.append(x[3])
    return out


def fault_value(data, o, rng, idx=None, value=None, value_only=False):
    leaves = constrained_leaves(o, value_only)
    if not leaves:
        return None
    if idx is None:
        idx = rng.choice(leaves)
    it = o.items[idx]
    if value is None:
        vs = outside_values(it[2], rng)
        if rng.random() < 0.2:
            # the number a neighbouring field of the same message holds, where this leaf does not allow it (an algorithm
            # identifier of another family, a handle of another range ...): whatever was accepted for the neighbour says
            # nothing about this field
            nb = neighbour_values(o, idx)
            vs = nb or vs
        if not vs:
            return None
        value = rng.choice(vs)
    nd = put(data, it, value)
    if nd is None:
        return None
    near = any(value in (a - 1, b + 1) for a, b in layout().types[it[2]]["valid"])
    return nd, _rec("value", o, it, idx, old=it[3], new=value, near=near)


def fault_boundary(data, o, rng):
    """keep a *valid* boundary value (must still be accepted)"""
    leaves = [i for i in constrained_leaves(o, value_only=True)]
    if not leaves:
        return None
    idx = rng.choice(leaves)
    it = o.items[idx]
    v = rng.choice(boundary_values(it[2]))
    nd = put(data, it, v)
    return nd, _rec("boundary", o, it, idx, old=it[3], new=v)


def fault_selector(data, o, rng, invalid=False):
    if not o.selectors:
        return None
    idx = rng.choice(o.selectors)
    it = o.items[idx]
    L = layout()
    if invalid:
        vs = outside_values(it[2], rng)
    else:
        vs = [v for a, b in L.types[it[2]]["valid"] for v in (range(a, b + 1) if b - a < 80 else (a, b)) if v != it[3]]
    if not vs:
        return None
    v = rng.choice(vs)
    return put(data, it, v), _rec("selector_invalid" if invalid else "selector_other_arm", o, it, idx, old=it[3], new=v)


def fault_tag(data, o, rng):
    if not o.tags:
        return None
    idx = rng.choice(o.tags)
    it = o.items[idx]
    v = {0x8001: 0x8002, 0x8002: 0x8001}.get(it[3], 0x8002)
    return put(data, it, v), _rec("tag", o, it, idx, old=it[3], new=v)


def fault_rc(data, o, rng):
    if not o.rcs:
        return None
    idx = rng.choice(o.rcs)
    it = o.items[idx]
    v = 0 if it[3] != 0 else rng.choice((0x101, 0x9A2, 0x1, 0x80000000))
    return put(data, it, v), _rec("rc", o, it, idx, old=it[3], new=v)


def fault_attr(data, o, rng):
    if not o.attrs:
        return None
    idx = rng.choice(o.attrs)
    it = o.items[idx]
    v = it[3] ^ rng.choice((0x20, 0x40, 0x60))
    return put(data, it, v), _rec("attr", o, it, idx, old=it[3], new=v)


def fault_cc(data, o, rng):
    if not o.ccs:
        return None
    idx = rng.choice(o.ccs)
    it = o.items[idx]
    L = layout()
    v = rng.choice(sorted(L.commands) + [0x11E, 0x123, 0x15A, 0, 0x20000000 | 0x17B])
    if v == it[3]:
        return None
    return put(data, it, v), _rec("cc", o, it, idx, old=it[3], new=v)


# ---- raw byte faults -----------------------------------------------------------------------------
def _pos(data, o, rng):
    """position biased towards structural fields"""
    cls = field_classes(o)
    if cls and rng.random() < 0.6:
        it = o.items[rng.choice(sorted(cls))]
        return it[4] + rng.randrange(it[5])
    return rng.randrange(len(data)) if data else 0


def _ctx(o, off, kind, **kw):
    r = dict(kind=kind, off=off, depth=depth_at(o, off), regions=list(region_kinds_at(o, off)), cls="raw")
    cls = field_classes(o)
    for i, it in enumerate(o.items):
        if it[0] == "P" and it[4] <= off < it[4] + it[5]:
            r["cls"] = cls.get(i, "leaf")
            r["path"] = it[1]
            break
    r.update(kw)
    return r


def fault_flip(data, o, rng):
    if not data:
        return None
    p = _pos(data, o, rng)
    bit = rng.randrange(8)
    b = bytearray(data)
    b[p] ^= 1 << bit
    return bytes(b), _ctx(o, p, "flip", bit=bit)


def fault_set(data, o, rng):
    if not data:
        return None
    p = _pos(data, o, rng)
    v = rng.choice((0, 0xFF, 0x80, 1, rng.randrange(256)))
    if data[p] == v:
        return None
    b = bytearray(data)
    b[p] = v
    return bytes(b), _ctx(o, p, "set", value=v)


def fault_insert(data, o, rng):
    p = _pos(data, o, rng) if data else 0
    ins = bytes(rng.randrange(256) for _ in range(rng.randint(1, 4)))
    return data[:p] + ins + data[p:], _ctx(o, p, "insert", n=len(ins))


def fault_delete(data, o, rng):
    if len(data) < 2:
        return None
    p = _pos(data, o, rng)
    n = rng.randint(1, 4)
    return data[:p] + data[p + n:], _ctx(o, p, "delete", n=n)


def fault_trunc(data, o, rng, k=None):
    if not data:
        return None
    if k is None:
        k = rng.randrange(len(data))
    return data[:k], _ctx(o, min(k, len(data) - 1), "trunc", at=k)


def fault_append(data, o, rng, suffix=None):
    if suffix is None:
        r = rng.random()
        if r < 0.12:
            suffix = b"\x00" * rng.choice((1, 4, 4))      # what mssim appends to every response
        elif r < 0.4:
            suffix = bytes(rng.randrange(256) for _ in range(rng.randint(1, 6)))
        elif r < 0.7:
            suffix = data[:rng.randint(1, max(1, len(data)))]
        else:
            suffix = b"\x80\x01\x00\x00\x00\x0a\x00\x00\x01\x7b"[:rng.randint(1, 10)]
    if not suffix:
        return None
    return data + suffix, dict(kind="append", off=len(data), depth=0, regions=[], cls="end", n=len(suffix))


# ---- history faults (capture loss) on a stream -------------------------------------------------
def history_faults(data, bounds, rng, kind=None):
    """drop / duplicate / swap whole messages of a stream"""
    msgs = [data[a:b] for a, b in zip(bounds, bounds[1:])]
    if not msgs:
        return None
    kind = kind or rng.choice(("drop-response", "drop-command", "dup-message", "swap-adjacent", "end-after-command"))
    i = rng.randrange(len(msgs))
    if kind == "drop-response":
        cands = [j for j in range(len(msgs)) if j % 2 == 1]
        if not cands:
            return None
        i = rng.choice(cands)
        del msgs[i]
    elif kind == "drop-command":
        i = rng.choice([j for j in range(len(msgs)) if j % 2 == 0])
        del msgs[i]
    elif kind == "dup-message":
        msgs.insert(i, msgs[i])
    elif kind == "swap-adjacent":
        if len(msgs) < 2:
            return None
        i = rng.randrange(len(msgs) - 1)
        msgs[i], msgs[i + 1] = msgs[i + 1], msgs[i]
    elif kind == "end-after-command":
        if len(msgs) % 2 == 1:
            return None
        msgs.pop()
    return b"".join(msgs), dict(kind=kind, off=bounds[min(i, len(bounds) - 1)], depth=0, regions=[], cls="message",
                                msg=i)


MEDIUM = {
    "size": fault_size, "count": fault_count, "value": fault_value, "selector_other_arm": fault_selector,
    "selector_invalid": lambda d, o, r: fault_selector(d, o, r, invalid=True), "tag": fault_tag, "rc": fault_rc,
    "attr": fault_attr, "cc": fault_cc, "flip": fault_flip, "set": fault_set, "insert": fault_insert,
    "delete": fault_delete, "trunc": fault_trunc, "append": fault_append,
}


def apply_random(data, o, rng, kinds, n):
    """apply up to n faults of the enabled kinds; each later fault is steered by the *original*
    reference decode (offsets shift only for insert/delete, which are applied last)"""
    recs = []
    order = sorted(rng.choice(kinds) for _ in range(n))
    order.sort(key=lambda k: k in ("insert", "delete", "trunc", "append"))
    cur = data
    for k in order:
        r = MEDIUM[k](cur, o, rng)
        if r is None or r[0] is None:
            continue
        cur, rec = r
        recs.append(rec)
    return cur, recs


def ctx_key(rec, outcome_class):
    return (rec.get("kind"), rec.get("cls"), rec.get("depth"), tuple(rec.get("regions", ())), rec.get("delta"),
            outcome_class)

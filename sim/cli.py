"""In-process and subprocess harness for the command line (tpmstream.__main__)."""
import contextlib
import io
import os
import re
import subprocess
import sys

ANSI = re.compile(r"\x1b\[[0-9;]*m")


class _Stdin:
    """sys.stdin replacement whose .buffer does seeded short reads"""

    def __init__(self, simfile):
        self.buffer = simfile
        self.mode = "r"

    def read(self, *a):
        return self.buffer.read(*a).decode("latin-1")


def run_inprocess(argv, stdin_file=None):
    """-> (exit status, stdout, stderr).  SystemExit is caught; any other exception is a crash
    (status 1 and the exception name on stderr, like the interpreter would do)."""
    import tpmstream.__main__ as m
    out, err = io.StringIO(), io.StringIO()
    old_argv, old_stdin = sys.argv, sys.stdin
    sys.argv = ["tpmstream"] + list(argv)
    if stdin_file is not None:
        sys.stdin = _Stdin(stdin_file)
    status = 0
    try:
        with contextlib.redirect_stdout(out), contextlib.redirect_stderr(err):
            try:
                m.main()
            except SystemExit as e:
                c = e.code
                status = 0 if c is None else (c & 0xFF if isinstance(c, int) else 1)
            except BaseException as e:  # noqa
                from .watchdog import RunTimeout
                if isinstance(e, (RunTimeout, KeyboardInterrupt, MemoryError)):
                    raise
                status = 1
                err.write("CRASH %s: %s" % (type(e).__name__, e))
    finally:
        sys.argv, sys.stdin = old_argv, old_stdin
        # argparse FileType leaves files open; close what we can
    return status, out.getvalue(), err.getvalue()


def run_subprocess(argv, stdin_bytes=None, timeout=600):
    env = dict(os.environ)
    src = os.environ.get("VERIF_REPO_SRC", "/repo/src")
    env["PYTHONPATH"] = src
    env["PYTHONDONTWRITEBYTECODE"] = "1"
    p = subprocess.run([sys.executable, "-m", "tpmstream"] + list(argv), input=stdin_bytes, capture_output=True,
                       env=env, timeout=timeout, cwd="/")
    return p.returncode, p.stdout.decode("utf-8", "replace"), p.stderr.decode("utf-8", "replace")


def strip(text):
    return ANSI.sub("", text)


def run_subprocess_fifo(argv, fifo_path, data, timeout=600):
    """the CLI reads one of its input files from a named pipe that a writer thread feeds"""
    import threading
    os.mkfifo(fifo_path)
    env = dict(os.environ)
    env["PYTHONPATH"] = os.environ.get("VERIF_REPO_SRC", "/repo/src")
    env["PYTHONDONTWRITEBYTECODE"] = "1"
    p = subprocess.Popen([sys.executable, "-m", "tpmstream"] + list(argv), stdout=subprocess.PIPE, stderr=subprocess.PIPE, env=env, cwd="/")

    def feed():
        try:
            fd = os.open(fifo_path, os.O_WRONLY)
            try:
                view = memoryview(data)
                while view:
                    n = os.write(fd, view[:4096])
                    view = view[n:]
            finally:
                os.close(fd)
        except OSError:
            pass
    th = threading.Thread(target=feed, daemon=True)
    th.start()
    try:
        out, err = p.communicate(timeout=timeout)
    except subprocess.TimeoutExpired:
        p.kill()
        out, err = p.communicate()
    if th.is_alive():
        # the CLI never opened the pipe (e.g. it refused the path): unblock the writer
        try:
            fd = os.open(fifo_path, os.O_RDONLY | os.O_NONBLOCK)
            os.close(fd)
        except OSError:
            pass
        th.join(2)
    return p.returncode, out.decode("utf-8", "replace"), err.decode("utf-8", "replace")


def run_subprocess_pty(argv, cols=100, rows=30, timeout=600):
    """the CLI with its stdout connected to a terminal of the given size (a user at a terminal, not a pipe)"""
    import fcntl
    import pty
    import struct
    import termios
    master, slave = pty.openpty()
    fcntl.ioctl(slave, termios.TIOCSWINSZ, struct.pack("HHHH", rows, cols, 0, 0))
    env = dict(os.environ)
    env["PYTHONPATH"] = os.environ.get("VERIF_REPO_SRC", "/repo/src")
    env["PYTHONDONTWRITEBYTECODE"] = "1"
    env["TERM"] = "xterm"
    env.pop("COLUMNS", None)
    env.pop("LINES", None)
    p = subprocess.Popen([sys.executable, "-m", "tpmstream"] + list(argv), stdin=subprocess.DEVNULL, stdout=slave, stderr=subprocess.PIPE, env=env, cwd="/", close_fds=True)
    os.close(slave)
    chunks = []
    import select
    import time
    t0 = time.time()
    while True:
        r, _, _ = select.select([master], [], [], 0.5)
        if r:
            try:
                d = os.read(master, 65536)
            except OSError:
                break
            if not d:
                break
            chunks.append(d)
        elif p.poll() is not None:
            break
        if time.time() - t0 > timeout:
            p.kill()
            break
    os.close(master)
    err = p.stderr.read().decode("utf-8", "replace")
    p.wait()
    return p.returncode, b"".join(chunks).decode("utf-8", "replace").replace("\r\n", "\n"), err

"""Synthetic nested layouts: declared with the repository's own public decorator and mirrored in the
reference layout, to reach region-nesting depths and shapes the TPM types never reach.

All are decoded through the same Binary.marshal / process() dispatch (names starting with TPM2B are
size-prefixed, the rest are plain structures).
"""
from .layout import layout

# name -> layout description (same format as the snapshot)
SYNTH = {
    "TPM2B_SYN_L0": {"kind": "tpm2b", "fields": [{"name": "size", "type": "UINT16"}, {"name": "buffer", "type": {"list": "BYTE"}}]},
    "TPMS_SYN_A": {"kind": "struct", "fields": [{"name": "tag", "type": "UINT8"}, {"name": "inner", "type": "TPM2B_SYN_L0"}, {"name": "tail", "type": "UINT16"}]},
    "TPM2B_SYN_L1": {"kind": "tpm2b", "fields": [{"name": "size", "type": "UINT16"}, {"name": "a", "type": "TPMS_SYN_A"}]},
    "TPMS_SYN_B": {"kind": "struct", "fields": [{"name": "l1", "type": "TPM2B_SYN_L1"}, {"name": "count", "type": "UINT8"}, {"name": "items", "type": {"list": "TPM2B_SYN_L0"}}]},
    "TPM2B_SYN_L2": {"kind": "tpm2b", "fields": [{"name": "size", "type": "UINT16"}, {"name": "b", "type": "TPMS_SYN_B"}]},
    "TPMS_SYN_C": {"kind": "struct", "fields": [{"name": "l2", "type": "TPM2B_SYN_L2"}, {"name": "x", "type": "UINT8"}]},
    "TPM2B_SYN_L3": {"kind": "tpm2b", "fields": [{"name": "size", "type": "UINT16"}, {"name": "c", "type": "TPMS_SYN_C"}]},
    "TPMS_SYN_D": {"kind": "struct", "fields": [{"name": "l3", "type": "TPM2B_SYN_L3"}, {"name": "l0", "type": "TPM2B_SYN_L0"}]},
    "TPM2B_SYN_L4": {"kind": "tpm2b", "fields": [{"name": "size", "type": "UINT16"}, {"name": "d", "type": "TPMS_SYN_D"}]},
    "TPMS_SYN_U": {"kind": "struct", "fields": [{"name": "hashAlg", "type": "TPMI_ALG_HASH"}, {"name": "digest", "type": "TPMU_HA"}, {"name": "n", "type": "UINT8"}], "selectors": {"digest": "hashAlg"}},
    "TPM2B_SYN_U": {"kind": "tpm2b", "fields": [{"name": "size", "type": "UINT16"}, {"name": "u", "type": "TPMS_SYN_U"}]},
    # types a *user* of the library declares with its public decorators: a vendor enumeration, a narrowed interface type
    "VENDOR_FW_SLOT": {"kind": "prim", "size": 2, "signed": False, "valid": [[1, 3], [16, 16]], "enum": {"A": 1, "B": 2, "C": 3, "RECOVERY": 16}, "base": "UINT16"},
    "VENDOR_ALG_HASH": {"kind": "prim", "size": 2, "signed": False, "valid": None, "subclass_of": "TPMI_ALG_HASH"},
    "TPMS_SYN_V": {"kind": "struct", "fields": [{"name": "slot", "type": "VENDOR_FW_SLOT"}, {"name": "alg", "type": "VENDOR_ALG_HASH"}, {"name": "inner", "type": "TPM2B_SYN_L0"}, {"name": "n", "type": "UINT8"}]},
    "TPM2B_SYN_V": {"kind": "tpm2b", "fields": [{"name": "size", "type": "UINT16"}, {"name": "v", "type": "TPMS_SYN_V"}]},
    "VENDOR_MODE": {"kind": "prim", "size": 1, "signed": False, "valid": [[0, 2], [7, 7]], "enum": {"OFF": 0, "ON": 1, "AUTO": 2, "TEST": 7}, "base": "UINT8"},
    "TPMS_SYN_F": {"kind": "struct", "fields": [{"name": "count", "type": "UINT8"}, {"name": "flags", "type": {"list": "TPMI_YES_NO"}}, {"name": "n", "type": "UINT16"},
                                                {"name": "modes", "type": {"list": "VENDOR_MODE"}}, {"name": "tail", "type": "UINT8"}]},
    "TPM2B_SYN_F": {"kind": "tpm2b", "fields": [{"name": "size", "type": "UINT16"}, {"name": "f", "type": "TPMS_SYN_F"}]},
    # parallel arrays: two lists share one count (the library takes the nearest preceding non-list member), alone and embedded
    "TPMS_SYN_P": {"kind": "struct", "fields": [{"name": "count", "type": "UINT8"}, {"name": "keys", "type": {"list": "BYTE"}}, {"name": "values", "type": {"list": "UINT16"}},
                                                {"name": "tail", "type": "UINT8"}]},
    "TPMS_SYN_PR": {"kind": "struct", "fields": [{"name": "digest", "type": "TPM2B_SYN_L0"}, {"name": "table", "type": "TPMS_SYN_P"}, {"name": "modes", "type": "TPMS_SYN_F"}]},
    # a session dump: the library's own session structures in a *counted* list (in commands / responses their list is sized in bytes)
    "TPMS_SYN_S": {"kind": "struct", "fields": [{"name": "count", "type": "UINT8"}, {"name": "sessions", "type": {"list": "TPMS_AUTH_COMMAND"}}, {"name": "n", "type": "UINT8"}]},
    "TPMS_SYN_SR": {"kind": "struct", "fields": [{"name": "count", "type": "UINT8"}, {"name": "sessions", "type": {"list": "TPMS_AUTH_RESPONSE"}}]},
    "TPMS_SYN_ROOT": {"kind": "struct", "fields": [{"name": "l4", "type": "TPM2B_SYN_L4"}, {"name": "u", "type": "TPM2B_SYN_U"}, {"name": "end", "type": "UINT8"}]},
}
ROOTS = ["TPM2B_SYN_L1", "TPM2B_SYN_L2", "TPM2B_SYN_L3", "TPM2B_SYN_L4", "TPM2B_SYN_U", "TPMS_SYN_ROOT", "TPMS_SYN_B", "TPMS_SYN_V", "TPM2B_SYN_V", "TPMS_SYN_F", "TPM2B_SYN_F", "TPMS_SYN_P", "TPMS_SYN_PR", "TPMS_SYN_S", "TPMS_SYN_SR"]

_REAL = None


def install():
    L = layout()
    if SYNTH["VENDOR_ALG_HASH"]["valid"] is None:
        SYNTH["VENDOR_ALG_HASH"]["valid"] = [list(iv) for iv in L.types["TPMI_ALG_HASH"]["valid"]]
    for n, d in SYNTH.items():
        L.types.setdefault(n, d)


def real_types():
    """the same layouts as real tpm_dataclass types"""
    global _REAL
    if _REAL is not None:
        return _REAL
    from tpmstream.spec.common.values import tpm_dataclass
    from . import real
    made = {}

    def resolve(t):
        if isinstance(t, dict):
            return list[resolve(t["list"])]
        return made[t] if t in made else real.types()[t]

    from tpmstream.spec.common.values import tpm_enum
    for n, d in SYNTH.items():
        if d["kind"] == "prim":
            if "enum" in d:
                made[n] = tpm_enum(type(n, (real.types()[d["base"]],), dict(d["enum"])))
            else:
                made[n] = type(n, (real.types()[d["subclass_of"]],), {})
            continue
        cls = type(n, (), {})
        cls.__annotations__ = {f["name"]: resolve(f["type"]) for f in d["fields"]}
        if "selectors" in d:
            cls._selectors = dict(d["selectors"])
        made[n] = tpm_dataclass(cls)
    _REAL = made
    return made


def gen_input(rng, knobs=None):
    from . import gen
    install()
    k = knobs or gen.Knobs(rng)
    k.p_absent = min(k.p_absent, 0.2)
    g = gen.Gen(rng, k)
    root = rng.choice(ROOTS)
    tree = g.node(root)
    data, items = gen.serialise(tree)
    return dict(root=root, data=data, cc=None, enc=None, label="synth:" + root, items=items, arms=g.arms, knobs=k)


install()

"""Types declared *during* the history: an application built on tpmstream declares vendor structures with the library's
public decorators whenever it needs them - after other traffic has been decoded, under names it has used before, and it
drops them again.  The pinned layout tables know nothing about such types, so each template below carries its own tiny
reference (expected events / outcome written out by hand) and returns a list of problems (strings).

Templates (seeded variation of names, widths, values; every declaration is fresh, nothing is cached here):

  same_name_two_widths   C02  two enumerations with the same qualified name over UINT8 and UINT16, decoded one after the
                              other: each must re-encode to its own input
  interface_after_use    C04  an interface type built with TPM_ALG.by_type_exactly() *after* TPM_ALG has been used:
                              strict mode accepts exactly the members of the filter (and NULL)
  derived_union          C05  a union derived from a library union that re-maps one selector value to a member with a
                              layout: depleted / superfluous at every cut / suffix
  declare_decode_drop    C06  unions declared, used and dropped again and again (the collector runs in between): every
                              well-formed packet decodes
  params_declared_later  C12  a parameter-area type declared between two decodes of an encrypted message: the kept and the
                              fresh result compare equal
"""
import gc


def _decode(tpm_type, data, strict=True, **kw):
    from tpmstream.io.binary import Binary
    events = []
    try:
        g = Binary.marshal(tpm_type=tpm_type, buffer=data, abort_on_error=strict, **kw)
        while True:
            try:
                events.append(next(g))
            except StopIteration as s:
                return events, None, s.value
    except Exception as e:  # noqa - classified by the caller
        return events, e, None


def _summary(events):
    out = []
    for e in events:
        if hasattr(e, "path"):
            out.append((str(e.path), getattr(e.type, "__name__", str(e.type)), None if e.value is ... else int(e.value)))
        else:
            out.append(("W", type(e.error).__name__))
    return out


def same_name_two_widths(rng):
    from tpmstream.io.binary import Binary
    from tpmstream.spec.common.values import tpm_dataclass, tpm_enum
    from tpmstream.spec.structures.base_types import UINT8, UINT16, UINT32
    problems = []
    name = rng.choice(("VENDOR_STATE", "ACME_MODE", "OEM_KIND"))
    widths = rng.sample([(UINT8, 1), (UINT16, 2), (UINT32, 4)], 2)
    members = {"IDLE": 0, "BUSY": 1, "DONE": 2, "ERR": rng.choice((3, 7, 200))}
    for base, w in widths:
        enum = tpm_enum(type(name, (base,), dict(members)))
        rec = type("TPMS_%s_REC" % name, (), {})
        rec.__annotations__ = {"serial": UINT16, "state": enum, "x": UINT8}
        rec = tpm_dataclass(rec)
        v = rng.choice(list(members.values()))
        data = (0xC0DE).to_bytes(2, "big") + v.to_bytes(w, "big") + bytes([rng.randrange(256)])
        ev, err, _ = _decode(rec, data)
        if err is not None:
            problems.append("%s over %d byte(s): strict decode of %s raised %r" % (name, w, data.hex(), err))
            continue
        back = b"".join(Binary.unmarshal(ev))
        if back != data:
            problems.append("%s declared over a %d-byte integer (after a type of the same name over another width): input %s re-encodes to %s" % (
                name, w, data.hex(), back.hex()))
    return problems


def interface_after_use(rng):
    from tpmstream.common.error import ValueConstraintViolatedError
    from tpmstream.spec.common.values import ValidValues, tpm_dataclass
    from tpmstream.spec.structures.base_types import UINT16
    from tpmstream.spec.structures.constants import TPM_ALG, TPM_ALG_ID, AlgType
    from tpmstream.spec.structures.structures import TPML_ALG
    problems = []
    # TPM_ALG itself is used first (a TPML_ALG, a plain TPM_ALG_ID leaf, construction, iteration)
    _decode(TPML_ALG, bytes.fromhex("00000002" "0001" "000b"))
    TPM_ALG(0x0B)
    list(TPM_ALG)
    kind, members, others = rng.choice((
        (AlgType.Hash, (0x0004, 0x000B, 0x000C, 0x000D, 0x0012), (0x0001, 0x0006, 0x0008, 0x0023, 0x0043)),
        (AlgType.Symmetric, (0x0006, 0x0013), (0x0001, 0x000B, 0x0023)),
    ))
    itype = type("TPMI_ALG_MY_%s" % kind.name.upper(), (TPM_ALG_ID,), {"_valid_values": ValidValues(TPM_ALG.by_type_exactly(kind), TPM_ALG.NULL)})
    rec = type("TPMS_MY_REQUEST", (), {})
    rec.__annotations__ = {"alg": itype, "n": UINT16}
    rec = tpm_dataclass(rec)
    for v in list(members) + [0x0010]:
        ev, err, _ = _decode(rec, v.to_bytes(2, "big") + b"\x00\x05")
        if err is not None:
            problems.append("interface type %s declared at run time: member 0x%04x rejected with %r" % (itype.__name__, v, err))
    for v in others:
        ev, err, _ = _decode(rec, v.to_bytes(2, "big") + b"\x00\x05")
        if not isinstance(err, ValueConstraintViolatedError):
            problems.append("interface type %s (TPM_ALG.by_type_exactly(%s) + NULL) declared after TPM_ALG had been used: strict mode did not reject 0x%04x (%s, %d events)" % (
                itype.__name__, kind.name, v, "no error" if err is None else repr(err), len(ev)))
    return problems


def derived_union(rng):
    from tpmstream.common.error import InputStreamBytesDepletedError, InputStreamSuperfluousBytesError
    from tpmstream.spec.common.values import tpm_dataclass
    from tpmstream.spec.structures.base_types import UINT32
    from tpmstream.spec.structures.constants import TPM_CAP
    from tpmstream.spec.structures.structures import TPMS_CAPABILITY_DATA, TPMU_CAPABILITIES
    problems = []
    lst = type("TPML_ACME_PROPERTY", (), {})
    lst.__annotations__ = {"count": UINT32, "properties": list[UINT32]}
    lst = tpm_dataclass(lst)
    uni = type("TPMU_CAPABILITIES_ACME", (TPMU_CAPABILITIES,), {
        "_selected_by": {**{k: v for k, v in TPMU_CAPABILITIES._selected_by.items() if k != "null"}, "vendor": TPM_CAP.VENDOR_PROPERTY}})
    uni.__annotations__ = {"vendor": lst}
    uni = tpm_dataclass(uni)
    rec = type("TPMS_CAPABILITY_DATA_ACME", (), {"_selectors": {"data": "capability"}})
    rec.__annotations__ = {"capability": TPM_CAP, "data": uni}
    rec = tpm_dataclass(rec)
    _decode(TPMS_CAPABILITY_DATA, bytes.fromhex("00000100"))
    n = rng.randint(1, 3)
    full = bytes.fromhex("00000100") + n.to_bytes(4, "big") + b"".join(rng.randrange(1 << 32).to_bytes(4, "big") for _ in range(n))
    ev, err, _ = _decode(rec, full)
    if err is not None:
        problems.append("derived union: the complete encoding %s raised %r" % (full.hex(), err))
        return problems
    want = _summary(ev)
    prims = [(i, s) for i, s in enumerate(want) if s[2] is not None]
    for cut in range(len(full)):
        ev2, err2, _ = _decode(rec, full[:cut])
        if not isinstance(err2, InputStreamBytesDepletedError):
            problems.append("derived union re-mapping TPM_CAP.VENDOR_PROPERTY: input cut at %d of %d ended with %s instead of InputStreamBytesDepletedError" % (
                cut, len(full), "no error" if err2 is None else type(err2).__name__))
            break
        if _summary(ev2) != want[:len(ev2)]:
            problems.append("derived union: events of the prefix cut at %d are not a prefix of the events of the whole" % cut)
            break
    suffix = bytes(rng.randrange(256) for _ in range(rng.randint(1, 4)))
    ev3, err3, _ = _decode(rec, full + suffix)
    if not isinstance(err3, InputStreamSuperfluousBytesError) or bytes(err3.bytes_remaining) != suffix:
        problems.append("derived union: %s + surplus %s ended with %s%s" % (full.hex(), suffix.hex(), "no error" if err3 is None else type(err3).__name__,
                                                                         "" if err3 is None or not hasattr(err3, "bytes_remaining") else " carrying %s" % bytes(err3.bytes_remaining).hex()))
    return problems


def declare_decode_drop(rng, rounds=12):
    from tpmstream.spec.common.values import tpm_dataclass
    from tpmstream.spec.structures.base_types import UINT8, UINT16, UINT32
    from tpmstream.spec.structures.structures import TPM2B_DATA, TPM2B_DIGEST
    problems = []
    shapes = (
        ({"counter": UINT32, "label": TPM2B_DATA}, "counter", bytes.fromhex("00000007")),
        ({"flags": UINT16, "digest": TPM2B_DIGEST}, "flags", bytes.fromhex("8001")),
        ({"major": UINT8, "build": UINT32}, "major", bytes.fromhex("03")),
        ({"temperature": UINT16, "note": TPM2B_DATA}, "temperature", bytes.fromhex("0123")),
    )
    for r in range(rounds):
        members, first, enc = rng.choice(shapes)
        names = list(members)
        uni = type("TPMU_VENDOR_%d" % rng.randrange(3), (), {"_selected_by": {names[0]: 1, names[1]: 2}})
        uni.__annotations__ = dict(members)
        uni = tpm_dataclass(uni)
        rec = type("TPMS_VENDOR_%d" % rng.randrange(3), (), {"_selectors": {"body": "kind"}})
        rec.__annotations__ = {"kind": UINT8, "body": uni}
        rec = tpm_dataclass(rec)
        data = b"\x01" + enc
        ev, err, _ = _decode(rec, data)
        from tpmstream.common.error import ConstraintViolatedError, InputStreamBytesDepletedError, InputStreamSuperfluousBytesError
        if err is not None:
            doc = isinstance(err, (ConstraintViolatedError, InputStreamBytesDepletedError, InputStreamSuperfluousBytesError))
            problems.append("round %d: strict decode of the well-formed packet %s as a union declared a moment ago (member %s) %s: %s: %s" % (
                r, data.hex(), first, "raised" if doc else "failed with an internal error", type(err).__name__, str(err)[:120]))
            break
        if [s[0] for s in _summary(ev)][-1] != ".body." + first:
            problems.append("round %d: the member decoded is %s, declared was %s" % (r, _summary(ev)[-1][0], ".body." + first))
            break
        del uni, rec, ev
        if rng.random() < 0.7:
            gc.collect()
    return problems


def params_declared_later(rng):
    from tpmstream.common.object import events_to_obj
    from tpmstream.spec.commands import Command
    from tpmstream.spec.commands.params_common import TPMS_PARAMS
    from tpmstream.spec.common.values import tpm_dataclass
    from tpmstream.spec.structures.base_types import UINT16
    from tpmstream.spec.structures.structures import TPM2B_DATA
    problems = []
    # StirRandom with one session that has decrypt set: the parameter area is the synthesised encrypted layout
    cmd = bytes.fromhex("8002" "0000001d" "00000146" "00000009" "40000009" "0000" "20" "0000" "0004" "a1b2c3d4")
    ev1, err1, ob1 = _decode(Command, cmd)
    if err1 is not None:
        return ["the encrypted StirRandom command did not decode: %r" % err1]
    later = type("TPMS_COMMAND_PARAMS_VENDOR_WRITE_BLOB_%d" % rng.randrange(4), (TPMS_PARAMS,), {})
    later.__annotations__ = {"blob": TPM2B_DATA, "offset": UINT16}
    later = tpm_dataclass(later)
    _decode(later, bytes.fromhex("0002" "beef" "0010"), parameter_encryption=True)
    ev2, err2, ob2 = _decode(Command, cmd)
    if err2 is not None:
        problems.append("second decode raised %r" % err2)
    elif ev1 != ev2:
        problems.append("a parameter-area type was declared (and decoded with parameter encryption) between two decodes of the same encrypted command: "
                        "the events of the two decodes do not compare equal%s" % (" (comparable forms equal)" if _summary(ev1) == _summary(ev2) else ""))
    elif not (ob1 == ob2):
        problems.append("... the objects of the two decodes do not compare equal")
    elif not (events_to_obj(ev1) == ob1):
        problems.append("... events_to_obj(kept events) != kept object")
    return problems


TEMPLATES = {"C02": same_name_two_widths, "C04": interface_after_use, "C05": derived_union, "C06": declare_decode_drop, "C12": params_declared_later}


def run(pid, seed):
    import random
    return TEMPLATES[pid](random.Random(seed))

"""Loader for the pinned TPM 2.0 layout snapshot (layout/tpm20_layout.json).

The snapshot is data extracted once from the pinned commit (tools/extract_layout.py). Nothing here
imports tpmstream: the reference model must not follow the tree under test.
"""
import json
import os

_HERE = os.path.dirname(os.path.abspath(__file__))
SNAPSHOT = os.path.join(os.path.dirname(_HERE), "layout", "tpm20_layout.json")
TEXTFORMS = os.path.join(os.path.dirname(_HERE), "layout", "tpm20_textforms.json")

ENC_TPM2B = "TPM2B_ENCRYPTED_PARAM"
TAG_NO_SESSIONS = 0x8001
TAG_SESSIONS = 0x8002
ATTR_DECRYPT = 0x20
ATTR_ENCRYPT = 0x40


class Layout:
    def __init__(self, path=SNAPSHOT):
        with open(path) as f:
            raw = json.load(f)
        self.types = dict(raw["types"])
        self.commands = {int(k): v for k, v in raw["commands"].items()}
        self.framing = raw["framing"]
        self.cc_by_name = {v["name"]: k for k, v in self.commands.items()}
        self.synthetic = {}
        self._text = None
        self._area_set = None

    # ---- pinned text forms -------------------------------------------------------------
    def text(self, tname, v):
        """pinned text form of a *valid* value of a primitive type, or None where nothing is pinned (attribute
        words, response codes, invalid values, synthetic types)"""
        if self._text is None:
            with open(TEXTFORMS) as f:
                self._text = json.load(f)["types"]
        for lo, hi, rule in self._text.get(tname, ()):
            if lo <= v <= hi:
                k = rule["k"]
                if k == "dec":
                    return str(v)
                if k == "named":
                    return rule["p"] + "%0*x" % (rule["n"], v - rule["b"])
                return rule["t"].get(str(v))
        return None

    # ---- type helpers -------------------------------------------------------------------
    def kind(self, tname):
        return self.types[tname]["kind"]

    def is_prim(self, tname):
        return self.types[tname]["kind"] == "prim"

    def prim(self, tname):
        t = self.types[tname]
        return t["size"], t["signed"], t["valid"]

    def valid(self, tname, v):
        return any(a <= v <= b for a, b in self.types[tname]["valid"])

    def bounds(self, tname):
        size, signed, _ = self.prim(tname)
        if signed:
            return -(1 << (8 * size - 1)), (1 << (8 * size - 1)) - 1
        return 0, (1 << (8 * size)) - 1

    def fields(self, tname, enc=False):
        fl = self.types[tname]["fields"]
        if enc:
            fl = [dict(fl[0], type=ENC_TPM2B)] + list(fl[1:])
        return fl

    def fieldsig(self, tname, enc=False):
        """(name, type-name) signature of a struct-like type, the way the events' type objects show it"""
        return tuple((f["name"], tdesc(f["type"])) for f in self.fields(tname, enc))

    def first_param_is_tpm2b(self, tname):
        fl = self.types[tname]["fields"]
        return bool(fl) and isinstance(fl[0]["type"], str) and fl[0]["type"].startswith("TPM2B")

    def union_select(self, tname, selector):
        """member name picked by selector (later duplicates win, None key is the fallback) or None"""
        t = self.types[tname]
        rev = {}
        for val, member in t["selected_by"]:
            rev[val] = member
        if isinstance(selector, int) and selector in rev:
            return rev[selector]
        if None in rev:
            return rev[None]
        return None

    def union_member_type(self, tname, member):
        for f in self.types[tname]["fields"]:
            if f["name"] == member:
                return f["type"]
        raise KeyError(member)

    def _areas(self):
        if self._area_set is None:
            self._area_set = {c[k] for c in self.commands.values() for k in ("cmd_handles", "cmd_params", "rsp_handles", "rsp_params")}
        return self._area_set

    def struct_names(self):
        """all non-union structure type names that can be decoded as a root (pinned, sorted); the handle / parameter
        area types of the command tables are listed by area_names()"""
        a = self._areas()
        return sorted(n for n, t in self.types.items() if t["kind"] != "union" and n != ENC_TPM2B and n not in a)

    def area_names(self):
        return sorted(self._areas())


def disp(tname):
    """display name of a snapshot key (two different area types share one name in the pinned tree)"""
    return tname.split("#", 1)[0]


def tdesc(t):
    if t is None:
        return None
    if isinstance(t, dict):
        return "list[%s]" % t["list"]
    return disp(t)


_LAYOUT = None


def layout():
    global _LAYOUT
    if _LAYOUT is None:
        _LAYOUT = Layout()
    return _LAYOUT

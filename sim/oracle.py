"""Comparison of a recorded strict decode with the reference outcome (shared by C03/C04/C05/C13)."""
from . import real

KIND_OF = {
    "SizeConstraintExceededError": "exceeded",
    "AnticipatedSizeConstraintExceededError": "anticipated",
    "SizeConstraintSubceededError": "subceeded",
    "ValueConstraintViolatedError": "value",
    "InputStreamBytesDepletedError": "depleted",
    "InputStreamSuperfluousBytesError": "superfluous",
}
SIZE_KINDS = ("exceeded", "anticipated", "subceeded")


def real_kind(t):
    """'ok' | documented kind | 'internal:<Class>'"""
    if t.exc_sum is None:
        return "ok"
    return KIND_OF.get(t.exc_sum[0], "internal:" + t.exc_sum[0])


def rm_kinds(o):
    if o.problem is None:
        return ("ok",)
    return tuple(sorted(set(a["kind"] for a in o.problem)))


def details_of(alt, root=None, given_cc=None):
    """the tuple(s) errsum() would give for an admissible alternative"""
    k = alt["kind"]
    if k == "exceeded":
        return [(alt["cpath"], alt["limit"], alt["already"], alt["vpath"], alt["by"])]
    if k == "anticipated":
        return [(alt["cpath"], alt["limit"], alt["already"], alt["vpath"], alt["vvalue"], alt["by"])]
    if k == "subceeded":
        return [(alt["cpath"], alt["limit"], alt["already"])]
    if k == "value":
        return [(alt["path"], alt["type"], alt["value"])]
    if k == "depleted":
        d = [(alt["cc"],)]
        if root == "Response" and given_cc is not None:
            d.append((given_cc,))      # relaxation (3)
        return d
    if k == "superfluous":
        d = [(alt["cc"],)]
        if root == "Response" and given_cc is not None:
            d.append((given_cc,))
        return d
    return []


class Match:
    def __init__(self):
        self.kind = None          # real kind
        self.expected = None      # rm kinds
        self.class_ok = False
        self.alt = None           # the admissible alternative whose class and details match
        self.alt_class = None     # first alternative of the same class (details may differ)
        self.details_ok = False
        self.events_ok = False
        self.events_msg = ""
        self.remaining_ok = None  # None: not applicable
        self.remaining_msg = ""
        self.relax = []


def match_strict(t, o, data, exp_items=None):
    """t: finished strict Task, o: reference Outcome of the same bytes"""
    m = Match()
    m.kind = real_kind(t)
    m.expected = rm_kinds(o)
    spec = t.spec
    root, given_cc = spec["type"], spec.get("cc")
    exp = exp_items if exp_items is not None else [real.model_item(x) for x in o.items]
    if o.problem is None:
        m.class_ok = m.kind == "ok"
        m.details_ok = m.class_ok
        m.events_ok = t.items == exp
        if not m.events_ok:
            m.events_msg = _diff(t.items, exp)
        return m
    same = [a for a in o.problem if a["kind"] == m.kind]
    m.class_ok = bool(same)
    if same:
        m.alt_class = same[0]
        got = tuple(t.exc_sum[1:])
        for a in same:
            cands = details_of(a, root, given_cc)
            if m.kind == "superfluous":
                ok = got[0] == data[a["rem_off"]:].hex() and any((got[1],) == c for c in cands)
            else:
                ok = any(got == c for c in cands)
            if ok:
                m.alt = a
                m.details_ok = True
                break
        if len(o.problem) > 1:
            m.relax.append("multi-region" if len(set(a["kind"] for a in o.problem)) == 1 else "depleted-or-exceeded")
    # events: a prefix of the reference items of admissible length (relaxation 5)
    n = len(t.items)
    if not (o.lo <= n <= o.hi):
        m.events_ok = False
        m.events_msg = "%d events emitted before the error, admissible %d..%d; %s" % (n, o.lo, o.hi, _diff(t.items, exp[:o.hi]))
    elif t.items != exp[:n]:
        m.events_ok = False
        m.events_msg = _diff(t.items, exp[:n])
    else:
        m.events_ok = True
        if o.lo != o.hi:
            m.relax.append("trailing-structural")
    # remaining bytes (constraint errors only)
    if m.kind in SIZE_KINDS + ("value",):
        a = m.alt or m.alt_class
        if a is not None:
            want = data[a["rem_off"]:]
            got = t.remaining
            m.remaining_ok = got == want
            if not m.remaining_ok:
                m.remaining_msg = "bytes_remaining=%s expected %s (input %d bytes, %d consumed by emitted fields, offending consumed %d)" % (
                    None if got is None else got.hex(), want.hex(), len(data),
                    sum(len(e.value.to_bytes()) for e in t.events if getattr(e, "value", ...) is not ... and hasattr(e, "path")),
                    a["consumed"])
    return m


def _diff(got, exp):
    n = min(len(got), len(exp))
    for i in range(n):
        if got[i] != exp[i]:
            return "events differ at %d: got %r expected %r" % (i, got[i], exp[i])
    if len(got) != len(exp):
        return "event count %d vs expected %d; first extra/missing: %r" % (
            len(got), len(exp), (got[n] if len(got) > n else exp[n]))
    return ""

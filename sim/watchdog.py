"""Per-run watchdog (kept in its own module so that world.py / cli.py can re-raise it without importing the runner).

The limit counts CPU time of the process (ITIMER_PROF; wall-clock x15 as a backstop).  When it fires, the stack tells who
was running: if the innermost frame that belongs to either side is code of the tree under test, the *code under test*
did not finish - a property violation ("does not terminate"), reported like any other with a replay that times out
again; if it is the machinery (an oracle, the generator), it is a harness error."""
import signal


class RunTimeout(BaseException):
    """a BaseException so that no `except Exception` of an oracle (or of the code under test) can swallow it and turn a
    slow machine into a bogus verdict"""

    def __init__(self, inside=False, site="?"):
        super().__init__(inside, site)
        self.inside = inside      # True: the tree under test was executing
        self.site = site


def _who(frame):
    f = frame
    n = 0
    while f is not None and n < 200:
        fn = f.f_code.co_filename
        if "/tpmstream/" in fn:
            return True, "%s:%s" % (fn.rsplit("tpmstream/", 1)[-1], f.f_code.co_name)
        if "/sim/" in fn and "/tpmstream/" not in fn:
            return False, "%s:%s" % (fn.rsplit("/sim/", 1)[-1], f.f_code.co_name)
        f = f.f_back
        n += 1
    return False, "?"


def _alarm(signum, frame):
    inside, site = _who(frame)
    raise RunTimeout(inside, site)


def install():
    signal.signal(signal.SIGALRM, _alarm)
    signal.signal(signal.SIGPROF, _alarm)


LIMIT = 0        # the limit currently in force (set by arm); rearm() restarts it for the next unit of work of the same run


def arm(seconds):
    global LIMIT
    LIMIT = seconds
    signal.setitimer(signal.ITIMER_PROF, seconds)
    signal.setitimer(signal.ITIMER_REAL, seconds * 15)


def rearm():
    """a run that consists of many independent decodes (complete enumeration of variants) gets the limit per decode"""
    if LIMIT:
        signal.setitimer(signal.ITIMER_PROF, LIMIT)
        signal.setitimer(signal.ITIMER_REAL, LIMIT * 15)


def uninstall():
    arm(0)
    signal.signal(signal.SIGALRM, signal.SIG_IGN)
    signal.signal(signal.SIGPROF, signal.SIG_IGN)


def timeout_sig(pid, exc):
    return "%s.T" % pid, "%s.T:does-not-terminate" % pid

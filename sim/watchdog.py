"""Per-run watchdog exception (kept in its own module so that world.py / cli.py can re-raise it without importing the runner)."""


class RunTimeout(BaseException):
    """a BaseException so that no `except Exception` of an oracle (or of the code under test) can swallow it and turn a
    slow machine into a bogus verdict"""

"""C02 - re-encoding the events of a decodable input reproduces the input bytes.

Workload: all C01 runs (strict) plus warn-mode runs whose only faults are out-of-range values on
leaves that are not selectors / tags / sizes / counts (layout unchanged).  The re-encoder runs as a
lazy consumer stage fed by the decoder task.
"""
from .. import faults as F
from .. import model, real
from ..runner import HarnessError, Result
from . import common

ID = "C02"
LEVEL = "exploration"
RULE = ("each run: generated well-formed input (sweep first, then seeded sampling); 35% of runs additionally corrupt "
        "1..3 non-structural constrained leaves and decode in warn mode; the decoder feeds Binary.unmarshal as a "
        "consumer task; non-trivial = chunks compared with the input slices at the reference offsets; distinct = "
        "distinct (type, cc, mode, bytes)")
REAL = common.REAL_DECODER + ["tpmstream.io.binary.unmarshal", "typed integer serialisation (base_type / AlgValue)"]
ASSUMPTIONS = ["field offsets and widths come from the reference decode of the same bytes"]
TIERS = {"quick": {"runs": 56000, "budget": 150}, "thorough": {"runs": 600000, "budget": 780}}


def make_case(i, rng, tier):
    inp = common.gen_input(rng, common.target_for(i, rng), huge=True)
    o = model.decode(inp["root"], inp["data"], cc=inp["cc"], enc=inp["enc"])
    if not o.ok:
        raise HarnessError("generator produced a malformed input: %s %s" % (inp["label"], o.problem))
    data, recs, strict = inp["data"], [], True
    if rng.random() < 0.35:
        for _ in range(rng.randint(1, 3)):
            f = F.fault_value(data, o, rng, value_only=True)
            if f:
                data, rec = f
                recs.append(rec)
        strict = not recs
    main = common.spec("main", inp["root"], data, inp["cc"], inp["enc"], strict=strict, consumer="binary")
    tasks, sched = common.perturb(rng, [main], p_by=0.3, roots=True)
    return {"input": {"root": inp["root"], "cc": inp["cc"], "enc": inp["enc"], "label": inp["label"],
                      "orig": bytes(inp["data"]).hex(), "threads": rng.randrange(1 << 30) if rng.random() < 0.0025 else None},
            "faults": recs, "tasks": tasks, "schedule": sched}


def check(case):
    res = Result()
    w = common.run_world(case, res)
    t = w.tasks["main"]
    s = t.spec
    data = bytes.fromhex(s["data"])
    strict = s.get("strict", True)
    o = model.decode(s["type"], data, cc=s.get("cc"), enc=s.get("enc"), lenient=not strict)
    common.count_faults(res, case)
    label = case["input"]["label"]
    mode = "strict" if strict else "warn"
    res.count("mode:" + mode)
    if not o.ok or o.unspecified or o.unknowable:
        res.count("skipped:not-decodable")
        return res
    if t.exc is not None and not t.decoder_raised:
        res.v("C02.a", "C02.a:%s@%s" % (type(t.exc).__name__, t.site), "%s (%s): re-encoder raised %r" % (label, mode, t.exc_sum))
        return res
    if t.exc_sum is not None:
        res.count("cross:decode-raised")       # C01 / C08's business
        return res
    if len(t.out) != len(t.events):
        res.v("C02.a", "C02.a:chunk-count", "%s (%s): %d chunks for %d events" % (label, mode, len(t.out), len(t.events)))
        return res
    joined = b"".join(t.out)
    clause_a = "C02.a" if strict else "C02.d"
    if joined != data:
        n = next((i for i in range(min(len(joined), len(data))) if joined[i] != data[i]), min(len(joined), len(data)))
        res.v(clause_a, "%s:bytes-differ" % clause_a,
              "%s (%s): re-encoded bytes differ from the input at offset %d: %s... vs %s... (lengths %d vs %d)" % (
                  label, mode, n, joined[n:n + 8].hex(), data[n:n + 8].hex(), len(joined), len(data)))
    # per event: primitives re-encode to their slice, everything else to nothing
    marsh = [(e, c) for e, c, it in zip(t.events, t.out, t.items) if it[0] != "W"]
    exp = o.items
    for e, c, it in zip(t.events, t.out, t.items):
        if it[0] in ("S", "W") and c != b"":
            res.v("C02.c", "C02.c:%s" % it[0], "%s (%s): %r re-encodes to %s instead of nothing" % (label, mode, it, c.hex()))
            break
    if [real.ev_item(e) for e, _c in marsh] == [real.model_item(x) for x in exp]:
        for (e, c), x in zip(marsh, exp):
            if x[0] == "P" and c != data[x[4]:x[4] + x[5]]:
                res.v("C02.b", "C02.b:%s" % x[2], "%s (%s): %s %s re-encodes to %s, input slice at %d is %s (width %d)" % (
                    label, mode, x[2], x[1], c.hex(), x[4], data[x[4]:x[4] + x[5]].hex(), x[5]))
                break
        res.count("slices-compared", sum(1 for x in exp if x[0] == "P"))
    else:
        res.count("cross:events-differ-from-reference")
    if not strict:
        res.count("warn-value-only:warnings", sum(1 for it in t.items if it[0] == "W"))
    if case["input"].get("threads") is not None and len(s["data"]) < 3000:
        sp = {k_: v_ for k_, v_ in s.items() if k_ != "consumer"}
        common.check_threads(res, "C02", [dict(sp, id="t0"), dict(sp, id="t1"), dict(sp, id="t2")], case["input"]["threads"], label=label)
    # types declared during the history (sim/dyntypes.py): every 40-th run or so, derived from the case so that a replay needs nothing else
    if int(__import__("hashlib").sha256(repr(sorted((t_["id"], t_.get("data", "")[:48]) for t_ in case["tasks"])).encode()).hexdigest()[:6], 16) % 40 == 0:
        from .. import dyntypes
        seed_ = int(__import__("hashlib").sha256(repr([t_.get("data", "")[:48] for t_ in case["tasks"]]).encode()).hexdigest()[6:12], 16)
        res.count("types-declared-during-the-history")
        for msg_ in dyntypes.run("C02", seed_):
            res.v("C02.D", "C02.D:declared-later", "a type declared during the history (template seed %d): %s" % (seed_, msg_))
            break
    res.nontrivial(s["type"], s.get("cc"), mode, s["data"])
    return res


def shrink(case):
    yield from common.shrink_faults(case, ("main",))
    yield from common.shrink_tasks(case, {"main"})
    yield from common.shrink_buffers(case, ("main",))

"""C13 - a constraint error accounts for every input byte.

Workload: strict rejections produced by the C03/C04 fault enumeration, with the fault at every
position including the final field, and with the input cut so that it ends exactly at the fault
(the problem is then detected on the very last byte).
Oracle: bytes(error.bytes_remaining) == input[rem_off:] for the admissible report that matches.
"""
from .. import faults as F
from .. import model, oracle
from ..runner import HarnessError, Result
from . import common

ID = "C13"
LEVEL = "fault_enumeration"
RULE = ("each run: generated well-formed input, one size or value fault (biased to the last fields), optionally the "
        "input is cut right after the offending bytes or extended by a suffix; only runs whose strict decode raised a "
        "constraint-violation error that the reference also expects are non-trivial; the remaining-bytes attribute is "
        "compared with the reference suffix; distinct = distinct (type, cc, bytes)")
REAL = common.REAL_DECODER
ASSUMPTIONS = ["consumed offending bytes: the bad field for a value error; the rest of the overrun region for an "
               "exceeded error; none for anticipated / subceeded errors (DESIGN.md C13)"]
TIERS = {"quick": {"runs": 40000, "budget": 150}, "thorough": {"runs": 1000000, "budget": 780}}


def enumerate_all(tier, rng):
    return tier == "thorough" and rng.random() < 0.5 or rng.random() < 0.01


def make_case(i, rng, tier):
    from .. import synth
    if rng.random() < 0.004:
        af = common.aligned_fault(rng)
        if af:
            inp, data, recs = af
            return common.mk_case(rng, inp, data, recs, perturbation=False)
    if rng.random() < 0.1:
        inp = synth.gen_input(rng)
    else:
        inp = common.gen_input(rng, common.target_for(i, rng), huge=True)
    o = model.decode(inp["root"], inp["data"], cc=inp["cc"], enc=inp["enc"])
    if not o.ok:
        raise HarnessError("generator produced a malformed input: %s %s" % (inp["label"], o.problem))
    if enumerate_all(tier, rng) and len(o.sizefields) <= 30 and len(inp["data"]) <= 1500:
        vs = []
        cands = []
        for idx, _r in o.sizefields:
            for val in F.size_variants(o, idx, rng)[:8]:
                cands.append(F.fault_size(inp["data"], o, rng, idx=idx, value=val))
        for idx in F.constrained_leaves(o)[-12:]:
            cands.append(F.fault_value(inp["data"], o, rng, idx=idx))
        for f in cands:
            if not f:
                continue
            vs.append((f[0], [f[1]]))
            o2 = model.decode(inp["root"], f[0], cc=inp["cc"], enc=inp["enc"])
            for a in (o2.problem or []):
                if "rem_off" in a and a["rem_off"] < len(f[0]):
                    vs.append((f[0][:a["rem_off"]], [f[1], dict(kind="trunc", at=a["rem_off"], off=a["rem_off"], cls="at-problem", depth=0, regions=[])]))
        if vs:
            return common.with_variants(common.mk_case(rng, inp, inp["data"], []), vs[:400])
    data = inp["data"]
    if rng.random() < 0.1:
        # several regions overrun at once (by one field, by different amounts), or a size fault inside an anticipated one:
        # what was consumed is the rest of the region the error names, however many regions inside it ended earlier
        fc = common.nested_chain_fault(rng, inp, o) if rng.random() < 0.7 else None
        if fc is None:
            f2 = F.fault_nested_pair(data, o, rng) if rng.random() < 0.5 else F.fault_straddle(data, o, rng)
            fc = (inp, f2[0], f2[1]) if f2 else None
            if fc and rng.random() < 0.5:
                fa = F.fault_append(fc[1], o, rng)
                if fa:
                    fc = (inp, fa[0], fc[2] + [fa[1]])
        if fc:
            return common.mk_case(rng, fc[0], fc[1], fc[2])
    r = rng.random()
    f = None
    if r < 0.5 and o.sizefields:
        idx = None
        if rng.random() < 0.4:
            idx = o.sizefields[-1][0] if rng.random() < 0.5 else o.sizefields[0][0]
        f = F.fault_size(data, o, rng, idx=idx)
    else:
        leaves = F.constrained_leaves(o)
        if leaves:
            idx = leaves[-1] if rng.random() < 0.35 else None
            f = F.fault_value(data, o, rng, idx=idx)
    if f is None:
        return None
    data, rec = f
    recs = [rec]
    # make the problem surface on the very last byte: cut right where the reference says the
    # consumed bytes end, or append surplus
    o2 = model.decode(inp["root"], data, cc=inp["cc"], enc=inp["enc"])
    r = rng.random()
    if o2.problem and r < 0.45:
        alts = [a for a in o2.problem if "rem_off" in a]
        if alts:
            a = rng.choice(alts)
            k = a["rem_off"] if rng.random() < 0.8 else max(0, a["rem_off"] - 1)
            if k < len(data):
                data = data[:k]
                recs.append(dict(kind="trunc", at=k, off=k, cls="at-problem", depth=0, regions=[]))
    elif r < 0.6:
        fa = F.fault_append(data, o, rng)
        if fa:
            data, rec2 = fa
            recs.append(rec2)
    elif r < 0.612 and o2.problem and len(data) < 4000:
        # the problem sits early in a big capture: tens of kB (beyond 64 KiB) are still unconsumed when it is detected,
        # and they arrive through a generator / list / file source, not a bytes object
        n = rng.choice((20000, 66000, 70000, 131100))
        data = data + bytes(rng.randrange(256) for _ in range(64)) * (n // 64)
        recs.append(dict(kind="append", off=len(data) - n, depth=0, regions=[], cls="end", n=n, big=True))
        case = common.mk_case(rng, inp, data, recs, perturbation=False)
        case["tasks"][0]["source"] = rng.choice(("gen", "list", "iter", "counting", "simfile", "bytes"))
        case["tasks"][0]["chunks"] = [rng.choice((4096, 8192, 65536))]
        return case
    return common.mk_case(rng, inp, data, recs)


def check_one(case):
    res = Result()
    w = common.run_world(case, res)
    t, data, o = common.main_ref(case, w)
    if o.unspecified:
        res.count("skipped:unspecified")
        return res
    m = oracle.match_strict(t, o, data)
    common.count_faults(res, case, m.expected[0])
    res.count("rm:" + "|".join(m.expected))
    res.count("real:" + m.kind)
    if m.kind not in oracle.SIZE_KINDS + ("value",):
        res.count("out-of-domain:no-constraint-error")
        return res
    if not m.class_ok:
        res.count("cross:class-mismatch")          # C03/C04's business
        return res
    label = case["input"]["label"]
    a = m.alt or m.alt_class
    at_end = a["rem_off"] >= len(data)
    res.count("problem-on-last-byte" if at_end else "problem-inside")
    res.count("kind:%s:%s" % (m.kind, "end" if at_end else "inside"))
    if t.remaining is None:
        res.v("C13.a", "C13.a:none:%s" % m.kind, "%s %s: error %r carries no remaining bytes" % (label, case["faults"], t.exc_sum))
    elif not m.remaining_ok:
        want = data[a["rem_off"]:]
        how = "dup" if len(t.remaining) > len(want) else "drop" if len(t.remaining) < len(want) else "wrong"
        clause = "C13.b" if how in ("dup", "drop") else "C13.a"
        res.v(clause, "%s:%s:%s:%s" % (clause, how, m.kind, "end" if at_end else "inside"),
              "%s %s: %r: %s" % (label, case["faults"], t.exc_sum, m.remaining_msg))
    res.nontrivial(t.spec["type"], t.spec.get("cc"), t.spec["data"])
    return res


def check(case):
    if "variants" in case:
        return common.check_variants(case, check_one)
    return check_one(case)


def shrink(case):
    if "variants" in case:
        yield from common.shrink_variants(case)
        return
    yield from common.shrink_faults(case, ("main",))
    yield from common.shrink_tasks(case, {"main"})
    yield from common.shrink_buffers(case, ("main",))

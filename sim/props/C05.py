"""C05 - input length mismatches are reported as depleted / superfluous, never absorbed.

Workload: every generated message / stream cut at a crash point (EOF at an arbitrary instant of the
decoder state: 0, 1, inside the header, inside nested buffers, inside the session area, len-1 ...)
or extended by a suffix; all root types including those whose encoding is empty.
"""
from .. import faults as F
from .. import model, oracle
from ..runner import HarnessError, Result
from . import common

ID = "C05"
LEVEL = "fault_enumeration"
RULE = ("each run: generated well-formed input (sweep over root types / command codes first) x one crash point "
        "(truncation at k in 0..len-1, biased to 0, 1, header, field boundaries +-1, len-1) or one appended suffix "
        "(random bytes / prefix of a message / duplicate); non-trivial = the strict decode of the cut/extended bytes "
        "was compared with the reference outcome (class, command code, surplus bytes, events); distinct = distinct "
        "(type, cc, bytes)")
REAL = common.REAL_DECODER
ASSUMPTIONS = ["a command/response stream may end cleanly after a command as well as after a response (both are message boundaries)",
               "a lone Response decode may report command_code None or the code it was given (relaxation 3)"]
TIERS = {"quick": {"runs": 65000, "budget": 150}, "thorough": {"runs": 1000000, "budget": 780}}
DOMAIN = ("depleted", "superfluous")


def cut_points(o, n, rng, k=6):
    pts = {0, 1, 2, 5, 6, 9, 10, n - 1, n - 2}
    prims = [it for it in o.items if it[0] == "P"]
    for it in rng.sample(prims, min(len(prims), k)):
        pts |= {it[4], it[4] + 1, it[4] + it[5] - 1, it[4] + it[5]}
    for b in o.boundaries:
        pts |= {b, b - 1, b + 1}
    return sorted(p for p in pts if 0 <= p < n)


def enumerate_all(tier, rng):
    return tier == "thorough" and rng.random() < 0.5 or rng.random() < 0.01


def make_case(i, rng, tier):
    inp = common.gen_input(rng, common.target_for(i, rng), huge=True)
    o = model.decode(inp["root"], inp["data"], cc=inp["cc"], enc=inp["enc"])
    if not o.ok:
        raise HarnessError("generator produced a malformed input: %s %s" % (inp["label"], o.problem))
    data = inp["data"]
    if enumerate_all(tier, rng) and 0 < len(data) <= 400:
        # every crash point 0..len-1 and three suffixes, same scenario
        vs = []
        for k in range(len(data)):
            vs.append(F.fault_trunc(data, o, rng, k=k))
        for _ in range(3):
            vs.append(F.fault_append(data, o, rng))
        vs = [(d, [rec]) for d, rec in (v for v in vs if v)]
        return common.with_variants(common.mk_case(rng, inp, data, []), vs)
    r = rng.random()
    if r < 0.7 and data:
        pts = cut_points(o, len(data), rng)
        k = rng.choice(pts) if rng.random() < 0.8 else rng.randrange(len(data))
        f = F.fault_trunc(data, o, rng, k=k)
    elif r < 0.72:
        f = (b"", dict(kind="trunc", off=0, at=0, depth=0, regions=[], cls="empty"))
    elif r < 0.7235 and inp["root"] != model.STREAM and len(data) < 3000:
        # a complete value with a whole file behind it (1-2 MB), delivered by a generator / iterator / file
        n = rng.choice((70000, 1048576, 1048577 + 4096, 2 * 1048576 + 3))
        suffix = bytes(rng.randrange(256) for _ in range(256)) * (n // 256) + b"\x00" * (n % 256)
        case = common.mk_case(rng, inp, data + suffix, [dict(kind="append", off=len(data), depth=0, regions=[], cls="end", n=n, big=True)], perturbation=False)
        case["tasks"][0]["source"] = rng.choice(("gen", "iter", "simfile", "counting", "bytes"))
        case["tasks"][0]["chunks"] = [65536]
        case["input"].pop("orig", None)
        return case
    else:
        f = F.fault_append(data, o, rng)
    if f is None:
        return None
    data, rec = f
    return common.mk_case(rng, inp, data, [rec])


def check_one(case):
    res = Result()
    w = common.run_world(case, res)
    # types declared during the history (sim/dyntypes.py): every 40-th run or so, derived from the case so that a replay needs nothing else
    if int(__import__("hashlib").sha256(repr(sorted((t_["id"], t_.get("data", "")[:48]) for t_ in case["tasks"])).encode()).hexdigest()[:6], 16) % 40 == 0:
        from .. import dyntypes
        seed_ = int(__import__("hashlib").sha256(repr([t_.get("data", "")[:48] for t_ in case["tasks"]]).encode()).hexdigest()[6:12], 16)
        res.count("types-declared-during-the-history")
        for msg_ in dyntypes.run("C05", seed_):
            res.v("C05.D", "C05.D:declared-later", "a type declared during the history (template seed %d): %s" % (seed_, msg_))
            break
    t, data, o = common.main_ref(case, w)
    if o.unspecified:
        res.count("skipped:unspecified")
        return res
    m = oracle.match_strict(t, o, data)
    common.count_faults(res, case, m.expected[0])
    res.count("rm:" + "|".join(m.expected))
    res.count("real:" + m.kind)
    for r in m.relax:
        res.count("relaxation:" + r)
    label = case["input"]["label"]
    root = t.spec["type"]
    kindroot = label.split(":")[0]
    is_stream = root == model.STREAM
    in_domain = any(k in DOMAIN for k in m.expected) or m.kind in DOMAIN or \
        (m.expected == ("ok",) and (is_stream or not data)) or (m.kind == "ok" and case["faults"])
    if not in_domain:
        res.count("out-of-domain:%s/%s" % ("|".join(m.expected), m.kind))
        return res
    if not data:
        res.count("empty-input")
    exp_s = "|".join(m.expected)
    where = "empty" if not data else case["faults"][0]["kind"] if case["faults"] else "none"
    if m.kind.startswith("internal:"):
        res.count("cross:internal-error")
    elif m.expected == ("ok",):
        # clean end: stream cut at a message boundary, or the cut removed nothing that matters
        if m.kind != "ok":
            clause = "C05.e" if is_stream else "C05.a"
            res.v(clause, "%s:%s-instead-of-clean-end:%s" % (clause, m.kind, kindroot),
                  "%s %s: raised %r, reference expects a clean end" % (label, case["faults"], t.exc_sum))
        elif not m.events_ok:
            res.v("C05.b", "C05.b:clean:%s" % kindroot, "%s %s: %s" % (label, case["faults"], m.events_msg))
        else:
            res.count("clean-end-at-boundary" if is_stream else "clean-complete")
    elif m.kind == "ok":
        clause = "C05.e" if is_stream else ("C05.a" if "depleted" in m.expected else "C05.d")
        res.v(clause, "%s:absorbed:%s:%s:%s" % (clause, exp_s, where, kindroot if data else "any"),
              "%s %s (%d bytes): strict decode completed normally with %d events, reference expects %s" % (
                  label, case["faults"], len(data), len(t.items), o.problem))
    elif not m.class_ok:
        if any(k in DOMAIN for k in m.expected) or m.kind in DOMAIN:
            clause = "C05.a" if "depleted" in m.expected else "C05.d"
            res.v(clause, "%s:%s-instead-of-%s:%s" % (clause, m.kind, exp_s, kindroot),
                  "%s %s: raised %r, reference expects %s" % (label, case["faults"], t.exc_sum, o.problem))
    elif not m.details_ok:
        clause = "C05.c" if m.kind == "depleted" else "C05.d"
        res.v(clause, "%s:details:%s" % (clause, kindroot),
              "%s %s: raised %r, reference expects %s (surplus %s)" % (label, case["faults"], t.exc_sum, o.problem,
                                                                      data[o.problem[0].get("rem_off", len(data)):].hex()))
    if m.class_ok and m.kind in DOMAIN and not m.events_ok:
        res.v("C05.b", "C05.b:%s:%s" % (m.kind, kindroot), "%s %s: %s" % (label, case["faults"], m.events_msg))
    res.nontrivial(root, t.spec.get("cc"), t.spec["data"])
    return res


def check(case):
    if "variants" in case:
        return common.check_variants(case, check_one)
    return check_one(case)


def shrink(case):
    if "variants" in case:
        yield from common.shrink_variants(case)
        return
    yield from common.shrink_tasks(case, {"main"})

"""C09 - a command/response stream decodes as its messages decoded one by one.

Workload: conversations of 1..n exchanges mixing all command codes, sessions, encryption, failed
responses, streams ending after a command.  Each message is also decoded on its own, responses with
the command code and encryption flag *the generator knows* (not derived through the code under
test).  Stream task, per-message tasks and an object-building consumer run under the scheduler.
"""
from .. import gen, model, real, world
from ..layout import layout
from ..runner import HarnessError, Result
from . import common

ID = "C09"
LEVEL = "exploration"
RULE = ("each run: a generated conversation (1..6 exchanges quick, 1..20 thorough; run i<117 starts with command "
        "code i) serialised as one stream; tasks: stream decode (counting source), one decode per message, "
        "events_to_objs; bystanders request parameter encryption on arbitrary commands; 5% of the runs decode the messages of a "
        "stream kept from much earlier in the same worker process one by one and compare with the kept stream events; "
        "non-trivial = stream events compared with the concatenation of the per-message decodes and "
        "objects compared pairwise; distinct = distinct stream bytes")
REAL = common.REAL_DECODER + ["tpmstream.common.object (separate_events, events_to_objs, events_to_obj)"]
ASSUMPTIONS = ["command code and response-encryption flag of each response come from the generator's value tree"]
TIERS = {"quick": {"runs": 16000, "budget": 150}, "thorough": {"runs": 300000, "budget": 780}}


def twin_case(rng, g):
    """two exchanges of the same command whose responses are byte-identical, only the first command asks for response
    encryption (an encrypted and a plain size-prefixed first parameter have the same wire layout): the pairing decides"""
    L = layout()
    ccs = [cc for cc in sorted(L.commands) if L.first_param_is_tpm2b(L.commands[cc]["rsp_params"])]
    cc = rng.choice(ccs)
    cmd1, _ = g.command(cc=cc, n_sessions=rng.randint(1, 2), enc=False, resp_enc=True)
    cmd2, _ = g.command(cc=cc, n_sessions=rng.randint(1, 2), enc=False, resp_enc=False)
    rsp = g.response(cc, enc=True, fail=False, n_sessions=1)
    # the response sessions must not carry the encrypt attribute themselves (it would contradict the second pairing):
    # clear it in place after serialising
    rdata, ritems = gen.serialise(rsp)
    b = bytearray(rdata)
    for it in ritems:
        if it[0] == "P" and it[1].endswith(".sessionAttributes"):
            b[it[4]] &= 0x9F
    rdata = bytes(b)
    c1, c2 = gen.serialise(cmd1)[0], gen.serialise(cmd2)[0]
    order = [(c1, True), (c2, None)]
    if rng.random() < 0.5:
        order.reverse()
    msgs, data = [], b""
    for cbytes, enc in order:
        msgs.append({"kind": "command", "cc": None, "enc": None, "start": len(data), "end": len(data) + len(cbytes)})
        data += cbytes
        msgs.append({"kind": "response", "cc": cc, "enc": enc, "start": len(data), "end": len(data) + len(rdata)})
        data += rdata
    return data, msgs


def make_case(i, rng, tier):
    L = layout()
    k = gen.Knobs(rng)
    g = gen.Gen(rng, k)
    if rng.random() < 0.03:
        data, msgs = twin_case(rng, g)
        tasks = [common.spec("stream", model.STREAM, data, None, None, strict=True, source="counting")]
        for j, m in enumerate(msgs):
            tasks.append(common.spec("m%d" % j, "Command" if m["kind"] == "command" else "Response", data[m["start"]:m["end"]], m["cc"], m["enc"], strict=True))
        return {"input": {"label": "twins:%s" % L.commands[msgs[1]["cc"]]["name"], "msgs": msgs, "later": None}, "tasks": tasks,
                "schedule": {"policy": "sequential"}}
    nmax = 6 if tier == "quick" else 20
    n = rng.randint(1, nmax) if rng.random() < 0.8 else rng.randint(1, 3)
    ccs = sorted(L.commands)
    trees, metas = [], []
    if i >= len(ccs) and rng.random() < 0.12:
        # the capture starts with StartAuthSession (all kinds of symmetric definitions, NULL included); the handle it returns
        # is the session handle later commands of the capture use - with whatever attributes they like
        cmd, rsp = g.exchange(cc=0x176)
        trees += [cmd, rsp]
        metas += [dict(kind="command", cc=None, enc=None), dict(kind="response", cc=cmd[2], enc=True if rsp[7] else None)]
        if rsp[4] is not None:
            h = next((n_[2] for f_, n_ in rsp[4][2] if f_ == "sessionHandle" and n_[0] == "prim"), None)
            if h is not None and common.L_valid_session(h):
                g.session_handle = h
    for j in range(n):
        cc = ccs[i] if (j == 0 and i < len(ccs)) else None
        cmd, rsp = g.exchange(cc=cc)
        trees += [cmd, rsp]
        metas += [dict(kind="command", cc=None, enc=None), dict(kind="response", cc=cmd[2], enc=True if rsp[7] else None)]
    if rng.random() < 0.15:
        trees.pop()
        metas.pop()
    data, items, bounds = gen.serialise_stream(trees)
    o = model.decode(model.STREAM, data)
    if not o.ok or o.items != items:
        raise HarnessError("stream self-check failed: %s %s" % (o.problem, common.show_diff(o.items, items)))
    if rng.random() < 0.04:
        # the capture starts with the device reporting its properties
        ccmd, crsp = common.capability_exchange(rng)
        pre = ccmd + crsp
        data = pre + data
        bounds = [0, len(ccmd), len(pre)] + [b + len(pre) for b in bounds[1:]]
        metas = [dict(kind="command", cc=None, enc=None), dict(kind="response", cc=0x17A, enc=None)] + metas
        trees = [None, None] + trees
        o = model.decode(model.STREAM, data)
        if not o.ok:
            raise HarnessError("capability preamble is not well-formed: %s" % (o.problem,))
    strict, label_extra = True, ""
    if rng.random() < 0.1:
        # warn mode: out-of-range values that leave every boundary and every layout decision where it was - the tag of a
        # session-less command of a later exchange (such a command has no sessions, so its response is never expected
        # encrypted, whatever an earlier command asked for), values of ordinary constrained leaves.  The stream and the
        # messages are decoded in warn mode; the warnings are part of what must be equal
        from .. import faults as F
        d2 = data
        starts = {a: j for j, a in enumerate(bounds[:-1])}
        tags = [(idx, it) for idx, it in enumerate(o.items) if it[0] == "P" and it[4] in starts and starts[it[4]] >= 2 and
                metas[starts[it[4]]]["kind"] == "command" and it[3] == 0x8001]
        n_f = 0
        if tags and rng.random() < 0.7:
            idx, it = rng.choice(tags)
            d3 = F.put(d2, it, rng.choice((0x00C1, 0x00C4, 0x8000, 0x8003, 0x0001)))
            if d3 is not None:
                d2, n_f = d3, n_f + 1
        for _ in range(rng.randint(0, 2)):
            f = F.fault_value(d2, o, rng, value_only=True)
            if f and not f[1].get("path", "").endswith(("tag", "commandCode", "responseCode")) and f[1].get("cls") not in ("selector",):
                d2, n_f = f[0], n_f + 1
        if n_f:
            data, strict, label_extra = d2, False, ":warn-values"
    tasks = [common.spec("stream", model.STREAM, data, None, None, strict=strict, source="counting")]
    msgs = []
    for j, (a, b) in enumerate(zip(bounds, bounds[1:])):
        m = metas[j]
        msgs.append({"kind": m["kind"], "cc": m["cc"], "enc": m["enc"], "start": a, "end": b})
        tasks.append(common.spec("m%d" % j, "Command" if m["kind"] == "command" else "Response", data[a:b], m["cc"], m["enc"], strict=strict))
    tasks += common.enc_sweep_specs(rng, g, rng.choice((0, 0, 1, 2)))
    tasks, sched = common.perturb(rng, tasks, p_by=0.2)
    return {"input": {"label": "stream:%d%s" % (len(trees), label_extra), "msgs": msgs, "later": rng.randrange(64) if rng.random() < 0.05 else None,
                      "threads": rng.randrange(1 << 30) if rng.random() < 0.004 else None},
            "tasks": tasks, "schedule": sched}


# a stream decoded now, its messages decoded one by one much later in the life of the process
_KEPT = []


def recheck_later(res, k):
    from ..world import Task
    label, sev, msgs, data = _KEPT[k % len(_KEPT)]
    res.count("hist:stream-rechecked-later")
    cat = []
    for j, m in enumerate(msgs):
        t = Task(dict(id="later%d" % j, type="Command" if m["kind"] == "command" else "Response", data=data[2 * m["start"]:2 * m["end"]],
                      cc=m["cc"], enc=m["enc"], strict=True)).run()
        if t.exc_sum is not None:
            return
        cat += t.events
    if sev != cat:
        j = next((n for n, (a, b) in enumerate(zip(sev, cat)) if a != b), min(len(sev), len(cat)))
        same = j < min(len(sev), len(cat)) and real.ev_item(sev[j]) == real.ev_item(cat[j])
        res.v("C09.d", "C09.d:later:%s" % ("type-identity" if same else "events"),
              "%s was decoded as a stream earlier in this process (its events were kept); decoding its messages one by one now gives "
              "events that differ from them at event %d%s" % (label, j, " (comparable forms equal, declared type objects differ)" if same else ""))


def check(case):
    from tpmstream.common.object import events_to_obj, events_to_objs
    res = Result()
    w = common.run_world(case, res)
    ts = w.tasks["stream"]
    msgs = case["input"]["msgs"]
    label = case["input"]["label"]
    res.count("messages", len(msgs))
    res.count("exchanges:%d" % ((len(msgs) + 1) // 2))
    if len(msgs) % 2:
        res.count("ends-after-command")
    parts = [w.tasks["m%d" % j] for j in range(len(msgs))]
    for j, p in enumerate(parts):
        if p.exc_sum is not None:
            res.count("cross:message-decode-raised")
            return res
        res.count("msg:%s:enc%d" % (msgs[j]["kind"], 1 if (msgs[j]["enc"] or _cmd_enc(p)) else 0))
    if ts.exc_sum is not None:
        res.v("C09.a", "C09.a:%s@%s" % (ts.exc_sum[0], ts.site), "%s: stream decode raised %r, the messages decode individually" % (label, ts.exc_sum))
        return res
    # (a) events: == exactly as the property says, on the real event objects
    cat = [e for p in parts for e in p.events]
    if ts.events != cat:
        j = next((n for n, (a, b) in enumerate(zip(ts.events, cat)) if a != b), min(len(ts.events), len(cat)))
        which = _msg_of(j, parts)
        kind = "type-identity" if j < min(len(ts.items), len(cat)) and ts.items[j] == real.ev_item(cat[j]) else "events"
        res.v("C09.a", "C09.a:%s:%s" % (kind, msgs[which]["kind"] if which is not None else "len"),
              "%s: stream events != concatenation of the per-message decodes at event %d (message %s): %r vs %r (%d vs %d events)%s" % (
                  label, j, which, ts.items[j] if j < len(ts.items) else "<end>",
                  real.ev_item(cat[j]) if j < len(cat) else "<end>", len(ts.events), len(cat),
                  "; comparable forms are equal - the declared type objects differ" if kind == "type-identity" else ""))
    # (b) objects
    try:
        objs = list(events_to_objs(ts.events))
    except Exception as e:
        res.v("C09.b", "C09.b:%s" % type(e).__name__, "%s: events_to_objs raised %s: %s" % (label, type(e).__name__, str(e)[:200]))
        objs = None
    if objs is not None:
        if len(objs) != len(msgs):
            res.v("C09.b", "C09.b:count", "%s: %d objects for %d messages" % (label, len(objs), len(msgs)))
        else:
            for j, (ob, p) in enumerate(zip(objs, parts)):
                if ob != p.value:
                    res.v("C09.b", "C09.b:object:%s" % msgs[j]["kind"], "%s: object %d (%s) of the stream != object of the individual decode: %r vs %r" % (
                        label, j, msgs[j]["kind"], str(ob)[:300], str(p.value)[:300]))
                    break
    # (c) boundaries: no event of message j+1 before all bytes of message j were pulled
    pos = 0
    k = 0
    for j, p in enumerate(parts):
        n = len(p.events)
        if k + n <= len(ts.pulls_at) and n:
            first_pull = ts.pulls_at[k]
            if first_pull is not None and first_pull < msgs[j]["start"]:
                res.v("C09.c", "C09.c:early", "%s: first event of message %d emitted after %d pulls, message starts at %d" % (
                    label, j, first_pull, msgs[j]["start"]))
                break
        k += n
    if case["input"].get("later") is not None and _KEPT:
        recheck_later(res, case["input"]["later"])
    if len(_KEPT) < 4 and ts.exc_sum is None and any(m["enc"] or _cmd_enc(p) for m, p in zip(msgs, parts)):
        _KEPT.append((label, list(ts.events), msgs, ts.spec["data"]))
    if case["input"].get("threads") is not None and len(ts.spec["data"]) < 3000:
        specs_ = [dict(ts.spec, id="stream")] + [dict(p.spec, id="m%d" % j) for j, p in enumerate(parts)]
        common.check_threads(res, "C09", specs_, case["input"]["threads"], concat=(0, list(range(1, len(specs_)))), label=label)
    res.nontrivial(ts.spec["data"])
    return res


def _cmd_enc(p):
    return any(it[0] == "S" and it[1] == ".parameters" and it[3] and it[3][0][1] == "TPM2B_ENCRYPTED_PARAM" for it in p.items)


def _msg_of(j, parts):
    k = 0
    for n, p in enumerate(parts):
        k += len(p.events)
        if j < k:
            return n
    return None


def shrink(case):
    yield from common.shrink_tasks(case, {"stream"} | {"m%d" % j for j in range(len(case["input"]["msgs"]))})
    # drop whole trailing exchanges
    msgs = case["input"]["msgs"]
    if len(msgs) > 2:
        for keep in (2, len(msgs) - 2):
            if keep >= len(msgs) or keep < 1:
                continue
            c = dict(case)
            c["input"] = dict(case["input"], msgs=msgs[:keep])
            end = msgs[keep - 1]["end"]
            c["tasks"] = []
            for t in case["tasks"]:
                if t["id"] == "stream":
                    t = dict(t, data=t["data"][:2 * end])
                elif t["id"].startswith("m") and t["id"][1:].isdigit() and int(t["id"][1:]) >= keep:
                    continue
                c["tasks"].append(t)
            c["schedule"] = {"policy": "sequential"}
            yield c
    # drop leading exchanges
    if len(msgs) > 2:
        cut = msgs[2]["start"]
        c = dict(case)
        c["input"] = dict(case["input"], msgs=[dict(m, start=m["start"] - cut, end=m["end"] - cut) for m in msgs[2:]])
        c["tasks"] = []
        for t in case["tasks"]:
            if t["id"] == "stream":
                t = dict(t, data=t["data"][2 * cut:])
            elif t["id"].startswith("m") and t["id"][1:].isdigit():
                j = int(t["id"][1:])
                if j < 2:
                    continue
                t = dict(t, id="m%d" % (j - 2))
            c["tasks"].append(t)
        c["schedule"] = {"policy": "sequential"}
        yield c

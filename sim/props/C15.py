"""C15 - hex, swtpm-log, pcapng and auto inputs decode like the bytes they carry.

Workload: generated streams rendered by this machinery's own writers with seeded layout noise (the
swtpm log interleaves a control-channel writer with the I/O channel; pcapng: raw-IP / Ethernet
framing, runt packets, mssim trailer, option blocks); container faults (tear inside a pair, non-hex
characters incl. the ones Python's int() accepts, lower-case in a swtpm log); seeded short strings over
a small alphabet for the hex scanner.  Independent reference readers recover the carried bytes.
"""
import re

from .. import medium, model, oracle, real
from ..runner import HarnessError, Result
from . import common

ID = "C15"
LEVEL = "exploration"
RULE = ("each run: a generated stream (or, for hex, any generated input) rendered into one container with seeded "
        "noise, 30% with one container fault, 35% of the streams with 1-2 faulted messages (size / length / medium faults, "
        "so pcapng trimming and runt skipping see inconsistent size fields); tasks: front-end decode, Binary decode of the carried bytes, Auto decode; "
        "15% of runs: a short string over {0,a,F,space,LF,+,-,_,x,g} for the hex scanner; non-trivial = the front-end's "
        "events/outcome were compared with the direct decode (or ValueError expected); distinct = distinct container bytes")
REAL = ["tpmstream.io.hex.marshal", "tpmstream.io.swtpm_log.marshal", "tpmstream.io.pcapng.marshal (+ dpkt)",
        "tpmstream.io.auto.marshal"] + common.REAL_DECODER
ASSUMPTIONS = ["reference readers in sim/medium.py define 'the bytes a container carries'",
               "auto-detection is compared only for renderings that start with a hex pair / pcapng magic / binary tag and hold at least the two bytes detection looks at",
               "swtpm logs are generated in the documented layout only (no small-alphabet sampling of its scanner)"]
TIERS = {"quick": {"runs": 20000, "budget": 150}, "thorough": {"runs": 400000, "budget": 780}}
ALPHABET = [b"0", b"a", b"F", b"7", b" ", b"\n", b"+", b"-", b"_", b"x", b"g", b"\t"]
BAD_CHARS = [b"+", b"-", b"_", b"x", b"g", b"G", b".", b":", b"z", b"#"]


def make_case(i, rng, tier):
    r = rng.random()
    if r < 0.15:
        text = b"".join(rng.choice(ALPHABET) for _ in range(rng.randint(0, 7)))
        t = dict(id="front", front="hex", type="UINT64", data=text.hex(), cc=None, enc=None, strict=True, source="counting")
        return {"input": {"label": "alphabet", "container": "hex", "fault": None}, "tasks": [t], "schedule": {"policy": "sequential"}}
    container = rng.choice(("hex", "hex", "swtpm", "pcapng"))
    if rng.random() < 0.025:
        # a long capture: the text / file crosses the block sizes a buffered reader would use (4096, 8192, 65536 ...)
        inp = common.long_stream(rng, rng.choice((1500, 3000, 3000, 6000, 18000)))
        container = rng.choice(("hex", "hex", "swtpm"))
    elif container == "hex" and rng.random() < 0.4:
        inp = common.gen_input(rng, common.target_for(i, rng))
    else:
        inp = common.gen_input(rng, ("stream", None))
    data = inp["data"]
    root = inp["root"]
    bounds = inp.get("bounds") or [0, len(data)]
    fault = None
    mfaults = []
    if root == model.STREAM and rng.random() < 0.35 and len(bounds) > 1:
        # malformed traffic in a well-formed container: faults on individual messages (the capture tool is pointed at
        # broken traffic most of the time); the container must still deliver exactly the bytes it carries
        from .. import faults as F
        msgs = [data[a:b] for a, b in zip(bounds, bounds[1:])]
        for _ in range(rng.randint(1, 2)):
            j = rng.randrange(len(msgs))
            meta = inp["metas"][j]
            mroot = "Command" if meta["kind"] == "command" else "Response"
            om = model.decode(mroot, msgs[j], cc=meta["cc"], enc=meta["enc"])
            r = rng.random()
            if r < 0.45:
                f = F.fault_size(msgs[j], om, rng)
                f = (f[0], [f[1]]) if f else None
            elif r < 0.6:
                f = F.fault_trunc(msgs[j], om, rng) if rng.random() < 0.5 else F.fault_append(msgs[j], om, rng)
                f = (f[0], [f[1]]) if f else None
            else:
                f = F.apply_random(msgs[j], om, rng, sorted(F.MEDIUM), rng.randint(1, 2))
            if f and f[0] is not None:
                msgs[j] = f[0]
                mfaults += [dict(x, msg=j) for x in f[1]]
        data = b"".join(msgs)
        bounds = [0]
        for m_ in msgs:
            bounds.append(bounds[-1] + len(m_))
    if container == "hex":
        blob = medium.write_hex(data, rng, style="noisy" if (inp["label"].startswith("long-stream") and rng.random() < 0.6) else None)
    elif container == "swtpm":
        blob = medium.write_swtpm_log(data, bounds, rng)
        if rng.random() < 0.1:
            # a structural token of the log (a section marker, the first digit of a pair) put right at / next to a
            # multiple of a reader's block size by free text in front of the first section
            marks = [m.start() for m in re.finditer(rb"Ctrl|SWTPM_IO", blob)][1:]
            toks = marks if (marks and rng.random() < 0.6) else marks + [e - 2 for e in medium.ref_swtpm_pair_ends(blob)[::7]]
            if toks:
                B = rng.choice((4096, 8192, 65536, 65536))
                pos = rng.choice(toks)
                padn = (B - 1 + rng.choice((0, 0, 0, 1, 2)) - pos) % B
                text = (b"# " + b"x" * 77 + b"\n") * (padn // 80 + 1)
                blob = (text[:padn - 1] + b"\n" if padn else b"") + blob
                aligned = B
    else:
        blob, meta = medium.write_pcapng([data[a:b] for a, b in zip(bounds, bounds[1:])], rng,
                                         pad=rng.choice((30000, 62000, 65000, 65535, 70000)) if rng.random() < 0.05 else 0)
    if container == "hex" and not mfaults and inp["label"].startswith("long-stream") and len(blob) > 4200 and rng.random() < 0.5:
        # torn write at a block boundary: the text is cut at an exact multiple of a buffered reader's block size, inside
        # a pair (odd number of digits)
        B = rng.choice([b_ for b_ in common.BLOCKS if b_ < len(blob)])
        cut = B * rng.randint(1, len(blob) // B)
        for pad in range(6):
            cand = (b" " * pad + blob)[:cut]
            if medium.ref_hex_read(cand)[2] == "odd number of digits":
                blob = cand
                fault = {"kind": "tear", "byte": len(medium.ref_hex_read(cand)[0]), "aligned_to": B}
                break
    if fault is None and container in ("hex", "swtpm") and not mfaults and rng.random() < 0.3 and data:
        ends = medium.ref_hex_pair_ends(blob) if container == "hex" else medium.ref_swtpm_pair_ends(blob)
        j = rng.randrange(len(ends))
        e = ends[j]                      # index just after the 2nd digit of byte j
        kind = rng.choice(("tear", "nonhex", "nonhex", "lower") if container == "swtpm" else ("tear", "nonhex", "nonhex"))
        if kind == "tear":
            blob = blob[:e - 1]
        elif kind == "nonhex":
            pos = e - rng.choice((1, 2))
            blob = blob[:pos] + rng.choice(BAD_CHARS) + blob[pos + 1:]
        else:
            pos = e - rng.choice((1, 2))
            lo = blob[pos:pos + 1].lower()
            if lo == blob[pos:pos + 1]:
                blob = blob[:pos] + b"f" + blob[pos + 1:]
            else:
                blob = blob[:pos] + lo + blob[pos + 1:]
        fault = {"kind": kind, "byte": j}
    strict = rng.random() < 0.7
    front = dict(id="front", front=container, type=root, data=blob.hex(), cc=inp["cc"], enc=inp["enc"], strict=strict,
                 source=rng.choice(("bytes", "counting", "list", "gen", "simfile")), chunks=[rng.choice((1, 3, 7, 64))])
    tasks = [front]
    if fault is None:
        carried = medium.ref_pcapng_carried(blob) if container == "pcapng" else data
        tasks.append(common.spec("direct", root, carried, inp["cc"], inp["enc"], strict=strict))
        starts_with_pair = len(blob) >= 2 and all(c in b"0123456789abcdefABCDEF" for c in blob[:2])
        if root == model.STREAM and (container == "pcapng" or (container == "hex" and starts_with_pair)):
            tasks.append(dict(front, id="auto", front="auto", source="bytes"))
        # detection looks at two bytes: two hex digits "may be hex" (documented ambiguity), 0a 0d is a pcapng section header -
        # malformed traffic can start with anything, so only bytes that can be nothing but binary are given to Auto as binary
        carried_is_plainly_binary = len(carried) >= 2 and not all(c in b"0123456789abcdefABCDEF" for c in carried[:2]) and carried[:2] != b"\x0a\x0d"
        if root == model.STREAM and rng.random() < 0.3 and carried_is_plainly_binary:
            tasks.append(dict(common.spec("autobin", root, carried, None, None, strict=strict), front="auto"))
    tasks, sched = common.perturb(rng, tasks, p_by=0.1)
    return {"input": {"label": inp["label"], "container": container, "fault": fault, "message_faults": mfaults},
            "tasks": tasks, "schedule": sched}


def check(case):
    res = Result()
    w = common.run_world(case, res)
    tf = w.tasks["front"]
    cont = case["input"]["container"]
    fault = case["input"].get("fault")
    label = "%s in %s%s" % (case["input"]["label"], cont, " with %s" % fault if fault else "")
    blob = bytes.fromhex(tf.spec["data"])
    res.count("container:" + cont)
    res.count("container-bytes:%s" % ("<4k" if len(blob) < 4096 else "<8k" if len(blob) < 8192 else "<64k" if len(blob) < 65536 else ">=64k"))
    for mf in case["input"].get("message_faults") or ():
        res.count("fault:message-" + mf["kind"])
    if case["input"].get("message_faults"):
        res.count("malformed-traffic-in-container:" + cont)
        label += " carrying malformed traffic %s" % [(m_["kind"], m_.get("path"), m_.get("new")) for m_ in case["input"]["message_faults"]]
    if fault:
        res.count("fault:container-" + fault["kind"])
    # reference reading of the container
    if cont == "hex":
        carried, _ends, err = medium.ref_hex_read(blob)
    elif cont == "swtpm":
        try:
            carried, _ends = medium.ref_swtpm_read(blob)
            err = None
            if fault:
                err = "container fault %s" % fault["kind"]
        except ValueError as e:
            carried, err = b"", str(e)
    else:
        carried, err = medium.ref_pcapng_carried(blob), None
    if cont in ("hex", "swtpm") and fault and err is None:
        raise HarnessError("container fault not seen by the reference reader: %r" % (fault,))
    if err is not None:
        # C15.c: text that is not a sequence of hex pairs is rejected with ValueError
        res.count("expect-valueerror")
        kind = oracle.real_kind(tf)
        if tf.exc is None:
            res.v("C15.c", "C15.c:accepted:%s:%s" % (cont, _class_of(blob, cont)),
                  "%s (%s): decoded to %d events and completed normally; text %r" % (label, err, len(tf.items), blob[:60]))
        elif not isinstance(tf.exc, ValueError):
            if real.is_documented(tf.exc) and cont == "hex" and case["input"]["label"] != "alphabet":
                res.count("decode-error-before-bad-text")
            elif real.is_documented(tf.exc) and case["input"]["label"] == "alphabet" and len(carried) >= 8:
                res.count("decode-error-before-bad-text")
            else:
                res.v("C15.c", "C15.c:%s:%s" % (type(tf.exc).__name__, cont), "%s (%s): raised %r instead of ValueError; text %r" % (
                    label, err, tf.exc_sum, blob[:60]))
        else:
            res.count("valueerror-raised")
        res.nontrivial(tf.spec["data"])
        return res
    if case["input"]["label"] == "alphabet":
        # valid pairs only: same outcome as decoding the carried bytes directly
        from ..world import Task
        d = Task(dict(id="direct", type="UINT64", data=carried.hex(), strict=True)).run()
        if (tf.items, tf.outcome()) != (d.items, d.outcome()):
            res.v("C15.a", "C15.a:alphabet", "hex text %r carries %s: front-end %r / %r, direct decode %r / %r" % (
                blob, carried.hex(), tf.items, tf.outcome(), d.items, d.outcome()))
        res.count("alphabet-valid")
        res.nontrivial(tf.spec["data"])
        return res
    td = w.tasks.get("direct")
    if td is None:
        return res
    direct_data = bytes.fromhex(td.spec["data"])
    if carried != direct_data:
        raise HarnessError("writer/reader self-check failed for %s: carried %d bytes, wrote %d" % (cont, len(carried), len(direct_data)))
    if tf.events != td.events or tf.outcome() != td.outcome():
        what = "events" if tf.items != td.items else "outcome" if tf.outcome() != td.outcome() else "type-identity"
        if what == "type-identity":
            res.count("cross:type-identity (C12)")
        else:
            res.v("C15.a", "C15.a:%s:%s" % (cont, what), "%s: %s front-end differs from the direct decode: %s; outcomes %r vs %r" % (
                label, cont, common.show_diff(tf.items, td.items), tf.outcome(), td.outcome()))
    for aid, ref in (("auto", tf), ("autobin", td)):
        ta = w.tasks.get(aid)
        if ta is None:
            continue
        if aid == "autobin":
            head = bytes.fromhex(ta.spec["data"][:4])
            if len(head) < 2 or all(c in b"0123456789abcdefABCDEF" for c in head) or head == b"\x0a\x0d":
                res.count("skipped:auto-on-bytes-that-may-be-hex")
                continue
        if ta.items != ref.items or ta.outcome() != ref.outcome():
            res.v("C15.b", "C15.b:%s" % (cont if aid == "auto" else "binary"), "%s: Auto front-end differs from the %s front-end: %s; outcomes %r vs %r" % (
                label, cont if aid == "auto" else "binary", common.show_diff(ta.items, ref.items), ta.outcome(), ref.outcome()))
        res.count("auto-compared:" + (cont if aid == "auto" else "binary"))
    res.nontrivial(tf.spec["data"])
    return res


def _class_of(blob, cont):
    for c in (b"+", b"-", b"_", b"x"):
        if c in blob:
            return "int-syntax"
    return "other"


def shrink(case):
    yield from common.shrink_tasks(case, {"front", "direct", "auto", "autobin"})
    if case["input"]["label"] == "alphabet":
        t = case["tasks"][0]
        text = bytes.fromhex(t["data"])
        for i in range(len(text)):
            c = dict(case)
            c["tasks"] = [dict(t, data=(text[:i] + text[i + 1:]).hex())]
            yield c

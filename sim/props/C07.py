"""C07 - warn mode and strict mode agree up to the first problem.

Purely differential: the same bytes are decoded twice as two tasks of the same run (strict, warn);
no reference model in the verdict.
"""
from .. import oracle, real
from ..runner import Result
from . import common

ID = "C07"
LEVEL = "exploration"
RULE = ("each run: one input of the C01-C06 families (well-formed, size/value/length/history faults single and "
        "multiple, random bytes) decoded by a strict task and a warn task under a seeded schedule; non-trivial = the "
        "input is rejected by strict mode or warned about by warn mode and the two prefixes / error details were "
        "compared; distinct = distinct (type, cc, flag, bytes)")
REAL = common.REAL_DECODER
ASSUMPTIONS = ["error details are snapshotted when the warning event is emitted (constraint objects are mutable)"]
TIERS = {"quick": {"runs": 70000, "budget": 150}, "thorough": {"runs": 800000, "budget": 780}}


def make_case(i, rng, tier):
    inp, data, recs, fam = common.gen_malformed(rng, i, p_wellformed=0.15)
    s = common.spec("strict", inp["root"], data, inp["cc"], inp["enc"], strict=True)
    w = common.spec("warn", inp["root"], data, inp["cc"], inp["enc"], strict=False)
    tasks, sched = common.perturb(rng, [s, w], p_by=0.15, roots=True)
    return {"input": {"root": inp["root"], "cc": inp["cc"], "enc": inp["enc"], "label": inp["label"], "family": fam, "orig": bytes(inp["data"]).hex()},
            "faults": recs, "tasks": tasks, "schedule": sched}


def check(case):
    res = Result()
    w = common.run_world(case, res)
    ts, tw = w.tasks["strict"], w.tasks["warn"]
    common.count_faults(res, case)
    label = "%s [%s] %s" % (case["input"]["label"], case["input"].get("family"), case["faults"])
    sk = oracle.real_kind(ts)
    res.count("strict:" + sk)
    W = tw.items
    i = next((n for n, it in enumerate(W) if it[0] == "W"), None)
    E = ts.items
    if sk.startswith("internal:"):
        res.count("cross:strict-internal-error")
        if i is not None and ts.items == [x for x in W[:i]][:len(ts.items)]:
            # strict mode died of something that is not one of the documented errors while warn mode reports a proper first
            # problem for the same bytes: "an error of the same class" it is not (C06 will say the rest)
            res.v("C07.c", "C07.c:class:internal", "%s: first warning %r, strict raised %r" % (label, W[i][1:], ts.exc_sum))
        return res
    if i is None:
        # no warning
        if tw.exc_sum is None:
            if sk != "ok":
                res.v("C07.a", "C07.a:warn-silent:%s" % sk,
                      "%s: warn mode emitted no warning and completed, strict mode raised %r" % (label, ts.exc_sum))
            elif W != E:
                res.v("C07.a", "C07.a:events-differ", "%s: both modes accept but %s" % (label, common.show_diff(W, E)))
            else:
                res.count("both-accept")
        else:
            wk = oracle.real_kind(tw)
            if wk == "value":
                # warn mode raised before any warning: the layout became unknowable
                from .C08 import justified_value_error
                just, why = justified_value_error(tw)
                if sk != "value":
                    res.v("C07.d", "C07.d:%s" % sk, "%s: warn mode raised %r before any warning, strict mode: %r" % (
                        label, tw.exc_sum, ts.exc_sum))
                elif not just:
                    # an ordinary out-of-range value: warn mode owes the offending event and then a warning, not an exception
                    res.v("C07.d", "C07.d:warn-raised-ordinary-value", "%s: warn mode raised %r instead of emitting the offending event and a warning (%s)" % (
                        label, tw.exc_sum, why))
                else:
                    res.count("warn-raised-unknowable")
            else:
                res.count("cross:warn-mode-crash")     # C08's business
        if sk != "ok":
            res.nontrivial(ts.spec["type"], ts.spec.get("cc"), ts.spec.get("enc"), ts.spec["data"])
        return res
    # there is a first warning
    res.count("first-warning:" + W[i][1])
    if sk == "ok":
        res.v("C07.a", "C07.a:strict-accepts:%s" % W[i][1],
              "%s: strict mode accepts, warn mode warns %r after %d events" % (label, W[i], i))
        return res
    first = W[i]
    prefix = W[:i]
    if sk == "value" and first[1] == "ValueConstraintViolatedError":
        # the offending event is emitted first, then the warning
        if not prefix or prefix[-1][0] != "P" or prefix[-1][1] != first[2] or prefix[-1][3] != first[4]:
            res.v("C07.b", "C07.b:value-event-missing", "%s: warning %r is not directly preceded by the offending event (got %r)" % (
                label, first, prefix[-1] if prefix else None))
        prefix = prefix[:-1]
    if prefix != E:
        res.v("C07.b", "C07.b:prefix:%s" % sk, "%s: before the first problem %s" % (label, common.show_diff(prefix, E, "warn vs strict events")))
    if tuple(first[1:]) != tuple(ts.exc_sum):
        what = "class" if first[1] != ts.exc_sum[0] else "details"
        res.v("C07.c", "C07.c:%s:%s" % (what, sk), "%s: first warning %r, strict raised %r" % (label, first[1:], ts.exc_sum))
    res.nontrivial(ts.spec["type"], ts.spec.get("cc"), ts.spec.get("enc"), ts.spec["data"])
    return res


def shrink(case):
    yield from common.shrink_faults(case, ("strict", "warn"))
    yield from common.shrink_tasks(case, {"strict", "warn"})
    yield from common.shrink_buffers(case, ("strict", "warn"))

"""C11 - events and Python objects convert into each other without loss.

Workload: well-formed encodings of C01 with extra quota for empty size-prefixed structures,
payload-less union arms, absent session areas, failed responses, encrypted parameters; bystander
decodes run in between (the conversion must not depend on them).
"""
from .. import model, real
from ..runner import HarnessError, Result
from . import common
from ..layout import layout

ID = "C11"
LEVEL = "exploration"
RULE = ("each run: generated well-formed input (sweep first, then sampling; knobs biased to absent parts); the decoder's "
        "object, events_to_obj(events), obj_to_events of both, their re-encoding and the Canonical facade are compared; "
        "5% of the runs also convert the kept events / object of a message with encrypted parameters decoded many runs "
        "earlier in the same worker process; non-trivial = all comparisons evaluated on a decodable input; distinct = "
        "distinct (type, cc, flag, bytes)")
REAL = common.REAL_DECODER + ["tpmstream.common.object", "tpmstream.common.canonical", "tpmstream.io.binary.unmarshal"]
ASSUMPTIONS = ["== on objects / events is the library's own equality, exactly as the property states"]
TIERS = {"quick": {"runs": 56000, "budget": 150}, "thorough": {"runs": 500000, "budget": 780}}


def make_case(i, rng, tier):
    from .. import gen
    k = gen.Knobs(rng)
    if rng.random() < 0.5:
        k.p_absent = rng.choice((0.5, 0.9, 1.0))
        k.p_fail = rng.choice((0.3, 0.6))
    inp = common.gen_input(rng, common.target_for(i, rng), k, huge=True)
    o = model.decode(inp["root"], inp["data"], cc=inp["cc"], enc=inp["enc"])
    if not o.ok:
        raise HarnessError("generator produced a malformed input")
    if inp["root"] == model.STREAM:
        return None
    thr = rng.randrange(1 << 30) if rng.random() < 0.003 else None
    main = common.spec("main", inp, strict=True)
    sweep = common.enc_sweep_specs(rng, gen.Gen(rng, k), rng.choice((0, 0, 1, 2)))
    tasks, sched = common.perturb(rng, [main] + sweep, p_by=0.3)
    return {"input": {"root": inp["root"], "cc": inp["cc"], "enc": inp["enc"], "label": inp["label"],
                      "later": rng.randrange(64) if rng.random() < 0.05 else None,
                      "threads": thr,
                      "thread_extra": [common.spec("x%d" % j_, common.gen_input(rng, ("response", rng.choice(sorted(layout().commands)), None, False, False)), strict=True)
                                       for j_ in range(2)] if thr is not None else []},
            "tasks": tasks, "schedule": sched}


# decode now, convert later: results of earlier runs of this process (messages with encrypted parameter areas first -
# their layout is synthesised) are kept alive and converted again many runs later
_KEEP = []          # the first 4 such results of the process stay for good
_RING = []          # 4 more rotate slowly


def remember(label, events, obj, cc, run_index):
    ent = (label, list(events), obj, cc)
    if len(_KEEP) < 4:
        _KEEP.append(ent)
    elif len(_RING) < 4:
        _RING.append(ent)
    elif run_index % 97 == 0:
        _RING[(run_index // 97) % 4] = ent


def convert_later(res, k, label_now):
    from tpmstream.common.object import events_to_obj, obj_to_events
    pool = _KEEP + _RING
    if not pool:
        return
    label, E, o1, cc = pool[k % len(pool)]
    res.count("hist:converted-later")
    try:
        o2 = events_to_obj(E, command_code=cc)
        E2 = list(obj_to_events(o1))
    except Exception as e:
        res.v("C11.f", "C11.f:later:%s" % type(e).__name__, "%s decoded earlier in this process: converting it now raised %s: %s" % (label, type(e).__name__, str(e)[:160]))
        return
    if not (o1 == o2):
        res.v("C11.f", "C11.f:later:objects-differ:%s" % _where(o1, o2), "%s was decoded earlier in this process (its events and object were kept); "
              "events_to_obj(its events) now != its decoder object: first difference at %s" % (label, _where(o1, o2, True)))
    elif E2 != E:
        res.v("C11.f", "C11.f:later:events-differ", "%s was decoded earlier in this process; obj_to_events(its object) now != its events: %s" % (
            label, common.show_diff(_evs(E2), _evs(E)) if _evs(E2) != _evs(E) else "comparable forms equal; == on the event objects fails (declared type objects differ)"))


def _evs(events):
    return [real.ev_item(e) for e in events]


def check(case):
    from tpmstream.common.canonical import Canonical
    from tpmstream.common.object import events_to_obj, obj_to_events
    from tpmstream.io.binary import Binary
    res = Result()
    w = common.run_world(case, res)
    t = w.tasks["main"]
    s = t.spec
    label = case["input"]["label"]
    data = bytes.fromhex(s["data"])
    if t.exc_sum is not None or not t.events:
        res.count("cross:decode-raised-or-empty")
        return res
    E = t.events
    o1 = t.value
    kind = label.split(":")[0]
    cc = t._cc(s.get("cc"))
    absent = sum(1 for a, b in zip(t.items, t.items[1:] + [None]) if a[0] == "S" and (b is None or b[1].count(".") <= a[1].count(".")) and not a[2].startswith("list["))
    res.count("absent-or-empty-parts", absent)
    try:
        o2 = events_to_obj(E, command_code=cc)
    except Exception as e:
        res.v("C11.a", "C11.a:events_to_obj:%s" % type(e).__name__, "%s: events_to_obj raised %s: %s" % (label, type(e).__name__, str(e)[:200]))
        return res
    if o1 is None and isinstance(o2, type(None)):
        pass
    if not (o1 == o2):
        res.v("C11.a", "C11.a:objects-differ:%s" % _where(o1, o2), "%s: decoder object != events_to_obj(events): first difference at %s" % (label, _where(o1, o2, True)))
    for name, ob in (("decoder", o1), ("rebuilt", o2)):
        if ob is None or not hasattr(ob, "__dataclass_fields__"):
            continue
        try:
            E2 = list(obj_to_events(ob))
        except Exception as e:
            res.v("C11.b", "C11.b:obj_to_events:%s" % type(e).__name__, "%s: obj_to_events(%s object) raised %s: %s" % (label, name, type(e).__name__, str(e)[:200]))
            continue
        if len(E2) != len(E) or E2 != E or any(type(a.value) is not type(b.value) for a, b in zip(E2, E)):
            it2, it1 = _evs(E2), t.items
            why = common.show_diff(it2, it1) if it2 != it1 else "comparable forms equal; == on the event objects fails (declared type objects differ)"
            res.v("C11.b", "C11.b:%s:%s" % (name, "len" if len(E2) != len(E) else "events"), "%s: obj_to_events(%s object) != decoded events: %s" % (label, name, why))
        else:
            back = b"".join(Binary.unmarshal(E2))
            if back != data:
                res.v("C11.c", "C11.c:%s" % name, "%s: re-encoding obj_to_events(%s object) gives %s..., input %s..." % (label, name, back[:16].hex(), data[:16].hex()))
    # (d) Canonical facade
    try:
        can = Canonical(data, format_in=Binary, tpm_type=real.get_type(s["type"]), command_code=cc) if s.get("enc") is None else None
        if can is not None:
            ce = list(can.events)
            if ce != E:
                res.v("C11.d", "C11.d:events", "%s: Canonical(bytes).events != decoded events: %s" % (label, common.show_diff(_evs(ce), t.items)))
            if not (can.object == o1):
                res.v("C11.d", "C11.d:object", "%s: Canonical(bytes).object != decoder object" % label)
            if hasattr(o1, "__dataclass_fields__") and type(o1).__name__ in ("Command", "Response") or (hasattr(o1, "__dataclass_fields__") and kind == "struct" and real.types().get(s["type"]) is type(o1) and s["type"] in _structure_names()):
                c2 = Canonical(o1)
                if list(c2.events) != E:
                    res.v("C11.d", "C11.d:from-object", "%s: Canonical(obj).events != decoded events" % label)
            res.count("canonical-compared")
    except Exception as e:
        res.v("C11.d", "C11.d:%s" % type(e).__name__, "%s: Canonical raised %s: %s" % (label, type(e).__name__, str(e)[:200]))
    res.count("root:" + kind)
    if case["input"].get("later") is not None:
        convert_later(res, case["input"]["later"], label)
    if hasattr(o1, "__dataclass_fields__") and (s.get("enc") or label.endswith(":e1")):
        remember(label, E, o1, cc, (case.get("_run") or {}).get("index", 0))
    if case["input"].get("threads") is not None and len(s["data"]) < 3000:
        others = [t_ for t_ in case["tasks"] if t_["id"] != "main" and t_.get("kind") != "api-noise"][:2]
        others = (case["input"].get("thread_extra") or []) + others[:1]
        common.check_threads(res, "C11", [dict(s, id="t0"), dict(s, id="t1")] + [dict(o_, id="o%d" % n_) for n_, o_ in enumerate(others)],
                             case["input"]["threads"], label=label)
    res.nontrivial(s["type"], s.get("cc"), s.get("enc"), s["data"])
    return res


_SN = None


def _structure_names():
    global _SN
    if _SN is None:
        from tpmstream.spec.structures import structures_types
        _SN = {t.__name__ for t in structures_types}
    return _SN


def _where(a, b, verbose=False, path=""):
    """path of the first difference between two objects"""
    import dataclasses
    if dataclasses.is_dataclass(a) and dataclasses.is_dataclass(b) and not isinstance(a, type):
        if type(a) is not type(b):
            return "%s<type %s vs %s>" % (path, type(a).__name__, type(b).__name__) if verbose else "type"
        for f in dataclasses.fields(a):
            x, y = getattr(a, f.name), getattr(b, f.name, None)
            if not (x == y):
                return _where(x, y, verbose, path + "." + f.name)
        return path + "<eq?>"
    if isinstance(a, list) and isinstance(b, list) and len(a) == len(b):
        for i, (x, y) in enumerate(zip(a, b)):
            if not (x == y):
                return _where(x, y, verbose, "%s[%d]" % (path, i))
    if verbose:
        return "%s: %s vs %s" % (path, str(a)[:120], str(b)[:120])
    kind = "none-vs-empty" if (a is None) != (b is None) else "value"
    return kind


def shrink(case):
    yield from common.shrink_tasks(case, {"main"})
    yield from common.shrink_buffers(case, ("main",))

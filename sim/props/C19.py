"""C19 - the command line is a faithful front-end to the decoder.

Workload: files written from generated traffic in every input format x --out x type choices; stdin
with short reads; a stream split over several files; misspelled names; Response without --command;
`type`; `example`.  In-process harness (patched argv / stdin / stdout) for volume, a quota of real
subprocess runs to validate the harness against the real thing.  Inputs are restricted to those for
which the library call itself completes, so that decoder defects are not re-reported here.
"""
import os
import shutil
import tempfile

from .. import cli, medium, model, real, synth, world
from ..layout import layout
from ..runner import Result
from . import common

ID = "C19"
LEVEL = "exploration"
RULE = ("each run: one CLI invocation - convert (generated traffic, well-formed / value faults / truncation / surplus, "
        "in binary|hex|swtpm-log|pcapng|auto, out pretty|events|binary, stream | --type Command | Response --command X "
        "| struct type; file, several files or stdin with short reads), refusals (misspelled type / command, Response "
        "without command), `type` on short inputs, `example` for a seeded handful of command codes and type names; "
        "10% of convert runs also in a real subprocess; non-trivial = stdout/stderr/status compared with the library "
        "result computed in-process for the same bytes; distinct = distinct (argv shape, input bytes)")
REAL = ["tpmstream.__main__ (argparse dispatch, convert, type, example)", "tpmstream.io.bytes_from_files",
        "tpmstream.data (bundled captures)", "all front-ends and printers"] + common.REAL_DECODER
ASSUMPTIONS = ["in-process harness (patched sys.argv/stdin, redirect_stdout, SystemExit caught) is validated against real "
               "subprocess runs on a quota of cases", "files live in a per-run temporary directory outside /repo and /verif"]
TIERS = {"quick": {"runs": 2900, "budget": 150, "run_timeout": 240}, "thorough": {"runs": 60000, "budget": 780, "run_timeout": 240}}
N_EXAMPLE_QUICK = 6
N_EXAMPLE_SUBSET_QUICK = 370


def make_case(i, rng, tier):
    L = layout()
    names = example_names()
    n_ex = N_EXAMPLE_QUICK if tier == "quick" else len(names)
    n_sub = N_EXAMPLE_SUBSET_QUICK if tier == "quick" else 3 * len(names)
    if n_ex <= i < n_ex + n_sub:
        # `example X` over a seeded handful of the bundled captures (the list of data files is a module attribute of the
        # CLI): 20 times cheaper, so many more names get their turn
        import os
        base = int(os.environ.get("VERIF_SEED", "20261004"))
        kind, name, cc = names[(base * 104729 + (i - n_ex) * 31) % len(names)]
        c = {"mode": "example", "name": name, "kind": kind, "subset": sorted(rng.sample(range(122), rng.choice((3, 5, 8))))}
        if cc is not None:
            c["cc"] = cc
        return c
    if i < n_ex:
        # every name has its turn: the thorough tier runs them all, the quick tier a window that moves with VERIF_SEED
        import os
        base = int(os.environ.get("VERIF_SEED", "20261004"))
        kind, name, cc = names[(base * 7919 + i * 29) % len(names)] if tier == "quick" else names[i]
        c = {"mode": "example", "name": name, "kind": kind}
        if cc is not None:
            c["cc"] = cc
        return c
    r = rng.random()
    if r < 0.12:
        kind = rng.choice(("badtype", "badcommand", "nocommand"))
        inp = common.gen_input(rng, ("response", rng.choice(sorted(L.commands)), 0, False, False))
        return {"mode": "refuse", "kind": kind, "data": inp["data"].hex(), "cc": inp["cc"],
                "typo": rng.choice(("drop", "swap", "case", "extra")) if rng.random() < 0.7 else "word:%d" % rng.randrange(1 << 16)}
    if r < 0.17:
        t = rng.choice([("struct", rng.choice([n for n in L.struct_names() if n not in synth.SYNTH])), ("command", rng.choice(sorted(L.commands)), 0, False),
                        ("response", rng.choice(sorted(L.commands)), 0, False, None)])
        from .. import gen
        k = gen.Knobs(rng)
        k.max_buf, k.max_list = 2, 1
        inp = common.gen_input(rng, t, k)
        if not inp["data"] or len(inp["data"]) > 80:
            return None
        return {"mode": "type", "data": inp["data"].hex(), "root": inp["root"], "cc": inp["cc"], "enc": inp["enc"], "label": inp["label"],
                "in": rng.choice(("binary", "binary", "hex")), "alias": rng.random() < 0.3, "split": rng.random() < 0.2,
                "twice": rng.random() < 0.08}        # the same path given twice: the file counts twice
    # convert
    fmt = rng.choice(("binary", "binary", "hex", "swtpm-log", "pcapng", "auto"))
    how = rng.choice(("file", "file", "files", "stdin"))
    if rng.random() < 0.03:
        how = rng.choice(("devstdin", "fifo"))         # input through a path that is not a regular file
    elif rng.random() < 0.02:
        how = "tty"                                     # output to a terminal (of some size) instead of a pipe
    if fmt in ("swtpm-log", "pcapng", "auto") or rng.random() < 0.5 or (how == "files" and fmt == "binary"):
        from .. import gen as _gen
        k = _gen.Knobs(rng)
        if how == "files" and fmt in ("binary", "auto"):
            k.p_magic = 0.6          # user data that looks like the start of some other file format, cut right there
            k.max_buf = max(k.max_buf, 8)
        if fmt in ("auto", "binary") and rng.random() < 0.5:
            k.p_text_tail, k.p_fail, k.p_sessions = 0.9, 0.0, 0.0      # binary content that ends like a text line
            k.max_buf = max(k.max_buf, 2)
        inp = common.gen_input(rng, ("stream", None), k)
    else:
        inp = common.gen_input(rng, common.target_for(10 ** 9, rng))
    if inp["root"] in L.area_names() or inp["root"] in synth.SYNTH:
        return None      # area types and this machinery's synthetic types are not CLI type names
    if inp["enc"]:
        return None      # the CLI cannot be told the encryption flag of a lone response
    data = inp["data"]
    fam = "wellformed"
    rr = rng.random()
    if rr < 0.3 and data:
        from .. import faults as F
        o = model.decode(inp["root"], data, cc=inp["cc"], enc=inp["enc"])
        f = rng.choice((F.fault_trunc, F.fault_append, lambda d, oo, g: F.fault_value(d, oo, g, value_only=True)))(data, o, rng)
        if f:
            data, fam = f[0], f[1]["kind"]
    bounds = [b for b in inp.get("bounds", [0, len(inp["data"])]) if b <= len(data)]
    if fmt == "binary":
        blob = data
    elif fmt == "hex":
        blob = medium.write_hex(data, rng)
    elif fmt == "swtpm-log":
        blob = medium.write_swtpm_log(data, bounds, rng)
    elif fmt == "pcapng":
        bb = sorted(set(bounds + [len(data)]))
        blob, _ = medium.write_pcapng([data[a:b] for a, b in zip(bb, bb[1:]) if b > a], rng)
    else:
        blob = data if rng.random() < 0.5 else medium.write_hex(data, rng, noise=False)
    if fmt == "hex" and fam == "wellformed" and rng.random() < 0.08:
        # what editors, shells and other tools leave in a text file: a byte order mark, a 0x prefix, a comment line, quotes
        blob = rng.choice((b"\xef\xbb\xbf", b"\xff\xfe", b"0x", b"# tpm trace\n", b"\"", b"hex:", b"\x00")) + blob
        fam = "text-artefact"
    cuts = sorted(rng.randrange(len(blob) + 1) for _ in range(rng.randint(1, 2))) if how == "files" else []
    if how == "files":
        # a piece may start with bytes that look like some other file format, or be empty
        from ..gen import MAGICS
        at = sorted(set(i_ for m_ in MAGICS for i_ in [blob.find(m_)] if i_ > 0))
        if at and rng.random() < 0.6:
            cuts = sorted(set(cuts[:1] + [rng.choice(at)]))
        if rng.random() < 0.1 and cuts:
            cuts = sorted(cuts + [cuts[0]])
    order = None
    if how == "files" and fmt in ("binary", "hex") and rng.random() < 0.2:
        # the same path more than once on the command line (a b a): every mention counts.  Cut at a message boundary when
        # there is one, so that the repeated piece is whole traffic
        inner = [b for b in bounds[1:-1] if 0 < b < len(data)]
        b = rng.choice(inner) if inner and rng.random() < 0.8 else rng.randrange(len(data) + 1)
        if fmt == "binary":
            cuts = [b]
        else:
            first = medium.write_hex(data[:b], rng) + b"\n"
            blob = first + medium.write_hex(data[b:], rng)
            cuts = [len(first)]
        order = rng.choice(([0, 1, 0], [0, 0], [0, 1, 1], [0, 0, 1], [1, 0, 1], [0, 1, 0, 1]))
    return {"mode": "convert", "in": fmt, "out": rng.choice(("pretty", "pretty", "events", "binary")),
            "root": inp["root"], "cc": inp["cc"], "blob": blob.hex(), "how": how, "cuts": cuts, "family": fam,
            "chunks": [rng.choice((1, 2, 5, 16, 4096))], "label": inp["label"], "subprocess": rng.random() < 0.1,
            "explicit_in": rng.random() < 0.8, "alias": rng.random() < 0.15, "order": order}


_NAMES = None


def example_names():
    """(kind, name, cc) of everything `example` can be asked for: every command code, every structure type name"""
    global _NAMES
    if _NAMES is None:
        L = layout()
        out = [("command", L.commands[cc]["name"], cc) for cc in sorted(L.commands)]
        out += [("type", n, None) for n in L.struct_names() if n not in synth.SYNTH and "#" not in n]
        _NAMES = out
    return _NAMES


_WORDS = None


def _words():
    """identifiers a user might type that are *not* command or type names: names that live next to the real ones in the
    library's namespaces (helpers of the enumeration classes, methods of the integer types, names imported into the
    structure modules) and a few plain words.  Computed from the tree under test, filtered by the pinned snapshot."""
    global _WORDS
    if _WORDS is None:
        import tpmstream.spec.structures.structures as st
        from tpmstream.spec.structures.constants import TPM_CC
        L = layout()
        known = set(L.cc_by_name) | set(L.types) | {"Command", "Response", "CommandResponseStream"}
        pool = [n for n in dir(TPM_CC) if not n.startswith("_") and not isinstance(getattr(TPM_CC, n, None), TPM_CC)]
        pool += [n for n in vars(st) if not n.startswith("_") and not n.isupper()]
        pool += ["name", "value", "items", "keys", "None", "True", "help", "type", "command", "list", "int", "all", "any"]
        _WORDS = sorted(set(n for n in pool if n not in known and n.isidentifier()))
    return _WORDS


def _typo(name, how):
    if how.startswith("word:"):
        w = _words()
        return w[int(how[5:]) % len(w)]
    if how == "drop" and len(name) > 3:
        return name[:-1]
    if how == "swap" and len(name) > 3:
        return name[0] + name[2] + name[1] + name[3:]
    if how == "case":
        return name.lower() if name.lower() != name else name.upper()
    return name + "X"


def _library_lines(case, blob):
    """what the library produces for the same bytes, format, type and command code (warn mode)"""
    import binascii
    fr = {"binary": "binary", "hex": "hex", "swtpm-log": "swtpm", "pcapng": "pcapng", "auto": "auto"}[case["in"]]
    from tpmstream.io.events import Events
    from tpmstream.io.pretty import Pretty
    from tpmstream.io.binary import Binary
    fo = {"pretty": Pretty, "events": Events, "binary": Binary}[case["out"]]
    cc = world.Task._cc(case["cc"])
    ev = real.FRONTS[fr].marshal(tpm_type=real.get_type(case["root"]), buffer=blob, command_code=cc, abort_on_error=False)
    text = ""
    try:
        for line in fo.unmarshal(ev):
            if isinstance(line, bytes):
                text += " " + binascii.hexlify(line).decode()
            else:
                text += "%s\n" % line
    except Exception as e:
        raise _LibRaised(text, e)
    return text


class _LibRaised(Exception):
    """the library call raised; .text = what it had produced until then"""

    def __init__(self, text, exc):
        Exception.__init__(self, "%s: %s" % (type(exc).__name__, exc))
        self.text, self.exc = text, exc


def check(case):
    res = Result()
    mode = case["mode"]
    res.count("mode:" + mode)
    tmp = tempfile.mkdtemp(prefix="verif-c19-")
    try:
        if mode == "convert":
            _convert(case, res, tmp)
        elif mode == "refuse":
            _refuse(case, res, tmp)
        elif mode == "type":
            _type(case, res, tmp)
        else:
            _example(case, res)
    finally:
        shutil.rmtree(tmp, ignore_errors=True)
    return res


SUFFIXES = (".bin", ".bin", ".log", ".txt", ".hex", ".pcap", ".pcapng", ".gz", ".dat", "", ".tpm", ".LOG", ".json")


def _write(tmp, name, data):
    # the name of an input file says nothing: same stem, a suffix that depends on the content only (so a replay gives the
    # same name), any of the suffixes people give captures
    if name.endswith(".bin"):
        name = name[:-4] + SUFFIXES[(len(data) * 7 + (data[0] if data else 0)) % len(SUFFIXES)]
    p = os.path.join(tmp, name)
    with open(p, "wb") as f:
        f.write(data)
    return p


def _convert(case, res, tmp):
    blob = bytes.fromhex(case["blob"])
    label = "convert --in %s --out %s %s (%s, %s, %d bytes via %s)" % (case["in"], case["out"], case["root"], case["label"],
                                                                        case["family"], len(blob), case["how"])
    res.count("in:" + case["in"])
    res.count("out:" + case["out"])
    res.count("how:" + case["how"])
    res.count("family:" + case["family"])
    pieces = None
    if case.get("order") and case["how"] == "files" and case["cuts"]:
        ends = case["cuts"] + [len(blob)]
        parts = [blob[a:b] for a, b in zip([0] + ends, ends)]
        pieces = [parts[k] for k in case["order"]]
        blob = b"".join(pieces)             # what the command line names, mention by mention
        case = dict(case, blob=blob.hex())
        res.count("how:files:same-path-repeated")
    rejected = False
    try:
        expected = _library_lines(case, blob)
    except _LibRaised as lr:
        # text that is not a sequence of hex pairs: the library rejects it (ValueError) after the rows of whatever came before;
        # the command line must not show more than that, and must not report success
        if isinstance(lr.exc, ValueError) and case.get("family") == "text-artefact" and case["how"] in ("file", "files", "stdin"):
            expected, rejected = lr.text, True
        else:
            res.count("skipped:library-raises:%s" % type(lr.exc).__name__)
            return
    except Exception as e:
        res.count("skipped:library-raises:%s" % type(e).__name__)
        return
    argv = ["co" if case.get("alias") else "convert"]
    if case["in"] != "auto" or not case.get("explicit_in", True):
        argv += ["--in", case["in"]] if case["in"] != "auto" else []
    elif case["in"] == "auto" and case.get("explicit_in", True):
        argv += ["--in", "auto"]
    argv += ["--out", case["out"]]
    L = layout()
    if case["root"] != model.STREAM:
        if case["in"] == "auto":
            return
        argv += ["--type", case["root"].split("#")[0]]
        if case["root"] == "Response":
            argv += ["--command", L.commands[case["cc"]]["name"]]
        if "#" in case["root"]:
            res.count("skipped:ambiguous-type-name")
            return
    stdin = None
    if case["how"] == "tty":
        cols = (40, 80, 100, 120, 200)[len(blob) % 5]
        status, out, err = cli.run_subprocess_pty(argv + [_write(tmp, "input.bin", blob)], cols=cols)
        res.count("subprocess-validated")
        got = [ln.split() for ln in cli.strip(out).splitlines()] if case["out"] != "binary" else "".join(cli.strip(out).split())
        want = [ln.split() for ln in cli.strip(expected).splitlines()] if case["out"] != "binary" else "".join(cli.strip(expected).split())
        if status != 0:
            res.v("C19.a", "C19.a:status:tty", "%s: exit status %d on a terminal, stderr %r" % (label, status, err[-300:]))
        elif got != want:
            res.v("C19.a", "C19.a:stdout:tty:%s" % case["out"], "%s: on a %d-column terminal the output differs from the library's lines: %s" % (
                label, cols, common.show_diff(got, want, "rows") if isinstance(got, list) else "hex differs"))
        res.nontrivial("convert", case["in"], case["out"], case["root"], case["how"], case["blob"])
        return
    if case["how"] in ("devstdin", "fifo"):
        # a pipe behind a path: /dev/stdin with a piped stdin, or a named pipe a writer feeds - only real processes can do that
        if case["how"] == "devstdin":
            status, out, err = cli.run_subprocess(argv + ["/dev/stdin"], stdin_bytes=blob)
        else:
            status, out, err = cli.run_subprocess_fifo(argv + [os.path.join(tmp, "input.fifo")], os.path.join(tmp, "input.fifo"), blob)
        res.count("subprocess-validated")
        if status != 0:
            res.v("C19.a", "C19.a:status:%s" % case["how"], "%s: exit status %d, stderr %r; the library call completes" % (label, status, err[-300:]))
        elif cli.strip(out).replace("\r\n", "\n") != cli.strip(expected):
            res.v("C19.a", "C19.a:stdout:%s:%s" % (case["in"], case["out"]), "%s: stdout differs from the library's lines: %s" % (
                label, common.show_diff(cli.strip(out).splitlines(), cli.strip(expected).splitlines(), "lines")))
        res.nontrivial("convert", case["in"], case["out"], case["root"], case["how"], case["blob"])
        return
    if case["how"] == "stdin":
        argv.append("-")
        stdin = world.SimFile(blob, case["chunks"])
    elif pieces is not None:
        paths = {}
        for k, part in zip(case["order"], pieces):
            if k not in paths:
                paths[k] = _write(tmp, "part%d.bin" % k, part)
            argv.append(paths[k])
    elif case["how"] == "files" and case["cuts"]:
        prev = 0
        for n, c in enumerate(case["cuts"] + [len(blob)]):
            argv.append(_write(tmp, "part%d.bin" % n, blob[prev:c]))
            prev = c
        if case["in"] == "pcapng" or case["in"] == "auto":
            pass
    else:
        argv.append(_write(tmp, "input.bin", blob))
    status, out, err = cli.run_inprocess(argv, stdin)
    if rejected:
        res.count("rejected-text-through-the-command-line")
        if status == 0 or cli.strip(out) != cli.strip(expected):
            res.v("C19.a", "C19.a:stdout:rejected-text:%s" % case["in"], "%s: the library rejects this text with ValueError after %d line(s); the command line exits %d and prints %d line(s)" % (
                label, len(cli.strip(expected).splitlines()), status, len(cli.strip(out).splitlines())))
        res.nontrivial("convert", case["in"], case["out"], case["root"], case["how"], case["blob"])
        return
    if status != 0:
        res.v("C19.a", "C19.a:status:%s" % ("crash" if "CRASH" in err else "nonzero"),
              "%s: exit status %d, stderr %r; the library call completes" % (label, status, err[-300:]))
        return
    if cli.strip(out) != cli.strip(expected):
        g, e = cli.strip(out).splitlines(), cli.strip(expected).splitlines()
        res.v("C19.a", "C19.a:stdout:%s:%s" % (case["in"], case["out"]), "%s: stdout differs from the library's lines: %s" % (
            label, common.show_diff(g, e, "lines")))
    if case["out"] == "binary":
        # hex of every decoded byte, in order
        from ..world import Task
        fr = {"binary": "binary", "hex": "hex", "swtpm-log": "swtpm", "pcapng": "pcapng", "auto": "auto"}[case["in"]]
        t = Task(dict(id="d", front=fr, type=case["root"], data=case["blob"], cc=case["cc"], strict=False)).run()
        fields = b"".join(e.value.to_bytes() for e, it in zip(t.events, t.items) if it[0] == "P")
        shown = "".join(out.split())
        if t.exc_sum is None and shown != fields.hex():
            res.v("C19.b", "C19.b:hex", "%s: --out binary shows %d hex digits, decoded fields hold %d bytes" % (label, len(shown), len(fields)))
    if case.get("subprocess") and case["how"] != "files":
        s2, o2, e2 = cli.run_subprocess(argv, stdin_bytes=blob if case["how"] == "stdin" else None)
        res.count("subprocess-validated")
        if s2 != status or cli.strip(o2).replace("\r\n", "\n") != cli.strip(out):
            res.v("C19.a", "C19.a:subprocess-differs", "%s: real subprocess gives status %d / %d chars, in-process harness %d / %d chars; stderr %r" % (
                label, s2, len(o2), status, len(out), e2[-200:]))
    res.nontrivial("convert", case["in"], case["out"], case["root"], case["how"], case["blob"])


def _refuse(case, res, tmp):
    L = layout()
    data = bytes.fromhex(case["data"])
    path = _write(tmp, "input.bin", data)
    name = L.commands[case["cc"]]["name"]
    if case["kind"] == "badtype":
        bad = _typo("Response", case["typo"])
        argv = ["convert", "--in", "binary", "--type", bad, "--command", name, path]
        want = "Did you mean"
    elif case["kind"] == "badcommand":
        bad = _typo(name, case["typo"])
        if bad in L.cc_by_name:
            return
        argv = ["convert", "--in", "binary", "--type", "Response", "--command", bad, path]
        want = "Did you mean"
    else:
        argv = ["convert", "--in", "binary", "--type", "Response", path]
        want = "--command"
    status, out, err = cli.run_inprocess(argv)
    label = "%s (%s)" % (" ".join(argv[:-1]), case["kind"])
    if case["kind"] == "badtype" and bad == "Response":
        return
    if status == 0 or out.strip() or want not in err:
        res.v("C19.c", "C19.c:%s" % case["kind"], "%s: status %d, stdout %r, stderr %r (expected non-zero, no decode, %r on stderr)" % (
            label, status, out[:120], err[-300:], want))
    res.count("refusal:" + case["kind"])
    res.nontrivial("refuse", case["kind"], argv[:-1])


def _type(case, res, tmp):
    from tpmstream.io.binary import Binary
    from tpmstream.spec import all_types
    from tpmstream.spec.commands import CommandResponseStream, Response
    from tpmstream.spec.structures.constants import TPM_CC
    data = bytes.fromhex(case["data"])
    fmt = case.get("in", "binary")
    blob = data if fmt == "binary" else data.hex().encode() + b"\n"
    if case.get("split") and len(blob) > 1:
        paths = [_write(tmp, "a.bin", blob[:len(blob) // 2]), _write(tmp, "b.bin", blob[len(blob) // 2:])]
    else:
        paths = [_write(tmp, "input.bin", blob)]
    if case.get("twice"):
        paths = paths + paths               # every mention of a path counts
        data = data + data
        res.count("type:same-path-repeated")
    status, out, err = cli.run_inprocess(["ty" if case.get("alias") else "type", "--in", fmt] + paths)
    label = "type --in %s on %s (%d bytes, %d file(s))" % (fmt, case["label"], len(data), len(paths))
    res.count("type:in:" + fmt)
    exp = []
    # the universe of types is the pinned snapshot's (every structure type, Command, Response - the CLI does not offer the
    # handle / parameter area types), not whatever list the tree under test currently exports
    L = layout()
    universe = [real.get_type(n) for n in L.struct_names() if n not in synth.SYNTH] + [real.get_type("Command"), real.get_type("Response")]
    seen_ids = set()
    for t in universe:
        if id(t) in seen_ids:
            continue
        seen_ids.add(id(t))
        if t is CommandResponseStream or t.__name__.startswith("TPMU"):
            continue
        for cc in (TPM_CC if t is Response else (None,)):
            try:
                list(Binary.marshal(tpm_type=t, buffer=data, command_code=cc, abort_on_error=True))
            except Exception as e:
                if not real.is_documented(e):
                    res.count("skipped:library-internal-error")
                    return
                continue
            exp.append("Response (%s)" % cc if t is Response else t.__name__)
    got = [ln for ln in cli.strip(out).splitlines() if ln.strip()]
    if status != 0:
        res.v("C19.d", "C19.d:status", "%s: exit status %d, stderr %r" % (label, status, err[-300:]))
    elif sorted(got) != sorted(exp):
        missing = sorted(set(exp) - set(got))[:5]
        extra = sorted(set(got) - set(exp))[:5]
        res.v("C19.d", "C19.d:set", "%s: printed %d names, the library decodes it strictly as %d; missing %s extra %s" % (
            label, len(got), len(exp), missing, extra))
    own = "Response (TPM_CC.%s)" % layout().commands[case["cc"]]["name"] if case["root"] == "Response" else case["root"]
    if not case.get("enc") and "#" not in own and own not in got and status == 0 and not case.get("twice"):
        res.v("C19.d", "C19.d:own-type", "%s: the type it was generated as (%s) is not listed" % (label, own))
    res.count("type-names-listed", len(got))
    res.nontrivial("type", case["data"])


def _example(case, res):
    """`example X`: every block names X's kind and re-decodes to what is shown"""
    from ..world import Task
    L = layout()
    import tpmstream.__main__ as m
    all_files = m.example_data_files
    if case.get("subset"):
        ordered = sorted(all_files, key=lambda f: f.name)
        m.example_data_files = [ordered[j] for j in case["subset"] if j < len(ordered)]
        res.count("example-over-subset-of-captures")
    try:
        status, out, err = cli.run_inprocess(["ex" if case.get("subset") and case["subset"][0] % 2 else "example", case["name"]])
    finally:
        m.example_data_files = all_files
    label = "example %s%s" % (case["name"], " (captures %s)" % case["subset"] if case.get("subset") else "")
    if status != 0:
        res.v("C19.e", "C19.e:status", "%s: exit status %d, stderr %r" % (label, status, err[-300:]))
        return
    blocks = [b for b in cli.strip(out).split("\n\n") if b.strip()]
    res.count("example-blocks", len(blocks))
    for b in blocks:
        lines = b.strip("\n").split("\n")
        head = lines[0]
        if ":" not in head:
            res.v("C19.e", "C19.e:format", "%s: block does not start with a header: %r" % (label, head[:80]))
            return
        tname, hexpart = head.split(":", 1)
        raw = bytes.fromhex("".join(hexpart.split()))
        if case["kind"] == "command":
            if tname not in ("Command", "Response"):
                res.v("C19.e", "C19.e:kind", "%s: block of type %s shown for a command code" % (label, tname))
                return
            if tname == "Command" and int.from_bytes(raw[6:10], "big") != case["cc"]:
                res.v("C19.e", "C19.e:other-command", "%s: command block carries command code 0x%x" % (label, int.from_bytes(raw[6:10], "big")))
                return
            spec = dict(id="r", type=tname, data=raw.hex(), cc=case["cc"] if tname == "Response" else None, strict=False, consumer="pretty")
        else:
            if tname != case["name"]:
                res.v("C19.e", "C19.e:other-type", "%s: block of type %s shown" % (label, tname))
                return
            spec = dict(id="r", type=tname, data=raw.hex(), cc=None, strict=False, consumer="pretty")
        t = Task(spec).run()
        shown = [ln.split() for ln in lines[1:]]
        if tname == "Response" and (t.exc_sum is not None or [r_ for r_ in (cli.strip(ln).split() for ln in t.out) if r_[:1] != ["Warning:"]] != shown):
            # a response captured with response encryption re-decodes to what is shown only with that flag (an opaque and
            # a plain size-prefixed first parameter have the same layout, so the plain decode may even succeed)
            t2 = Task(dict(spec, enc=True)).run()
            if t2.exc_sum is None:
                t = t2
        if t.exc_sum is not None:
            res.count("example-redecode-raised:" + t.exc_sum[0])
            continue
        # the block shows the rows of the captured *object*; decoding its bytes again (warn mode) may add warnings about
        # out-of-range values the capture contains - they are not part of "what is shown"
        again = [r_ for r_ in (cli.strip(ln).split() for ln in t.out) if r_[:1] != ["Warning:"]]
        if shown != again:
            res.v("C19.e", "C19.e:redecode", "%s: %s block does not re-decode to the rows shown: %s" % (label, tname, common.show_diff(again, shown, "rows")))
            return
        res.count("example-blocks-redecoded")
    res.nontrivial("example", case["name"], len(blocks))


def shrink(case):
    return iter(())

"""C10 - decoding is incremental: one byte of look-ahead, prefix-stable, source-agnostic.

Workload: well-formed messages / streams and their prefixes (crash points), delivered through every
source kind, through SimFile short reads via bytes_from_files (also split over several files) and
through the lazy hex and swtpm-log front-ends.  The look-ahead bound is checked *while the run
proceeds*, at every yielded event, from the pull counter of the source the simulator owns.
"""
from .. import medium, model, real, world
from ..runner import HarnessError, Result
from . import common
from ..layout import layout

ID = "C10"
LEVEL = "exploration"
RULE = ("each run: a generated well-formed input and one cut point k (70% proper prefix); tasks: whole input and "
        "prefix through a counting source, the prefix through 3 other seeded source kinds, through seeded short-read "
        "files and through the hex / swtpm-log text front-ends over counting character sources; non-trivial = the "
        "per-event pull bound, prefix-stability and cross-source equality were evaluated; distinct = distinct (type, "
        "cc, bytes, cut)")
REAL = common.REAL_DECODER + ["tpmstream.io.hex.marshal", "tpmstream.io.swtpm_log.marshal", "tpmstream.io.bytes_from_files"]
ASSUMPTIONS = ["bytes of the fields emitted so far = sum of declared widths of the primitive events emitted so far",
               "text front-ends: characters pulled <= end of the hex pair that carries the look-ahead byte (computed by the "
               "reference reader of sim/medium.py); files: bytes read <= that bound rounded up to the read boundary"]
# run_timeout: run 0 of every batch decodes a capture of more than 2 MiB (quick) / 4 and 8 MiB (thorough, runs 0 and 1) - one to
# several minutes of CPU time in this pure-Python decoder, in a worker process of its own (SOLO) next to the other runs
TIERS = {"quick": {"runs": 12000, "budget": 150, "run_timeout": 600}, "thorough": {"runs": 300000, "budget": 780, "run_timeout": 1800}}
MEGA = {"quick": {0: (1 << 21)}, "thorough": {0: (1 << 22), 1: (1 << 23)}}
SOLO = {t: set(v) for t, v in MEGA.items()}       # these runs get a worker process of their own (sim/runner.py)
OTHER_KINDS = ("bytes", "bytearray", "list", "tuple", "memoryview", "array", "iter", "gen", "byteobjs", "realfile")


def distinct_stream(rng):
    """one exchange per command code, every command with a session that has decrypt and encrypt set (whether or not the
    command has a size-prefixed first parameter - the decoder then asks for the encrypted variant of every parameter
    layout there is): a capture of a test-suite run, the kind of traffic this tool is pointed at"""
    from .. import gen
    L = layout()
    k = gen.Knobs(rng)
    k.max_buf, k.max_list, k.p_fail = min(k.max_buf, 4), min(k.max_list, 1), 0.0
    g = gen.Gen(rng, k)
    ccs = sorted(L.commands)
    rng.shuffle(ccs)
    data = b""
    bounds = [0]
    for cc in ccs:
        cmd, _ = g.command(cc=cc, n_sessions=1, enc=False, resp_enc=False)
        cb, items = gen.serialise(cmd)
        at = next(it for it in items if it[0] == "P" and it[1].endswith(".sessionAttributes"))
        b = bytearray(cb)
        b[at[4]] |= 0x60
        rsp = g.response(cc, enc=False, fail=False, n_sessions=1)
        rb, ritems = gen.serialise(rsp)
        data += bytes(b) + rb
        bounds += [len(data) - len(rb), len(data)]
    return data, bounds


class _Counter:
    """a byte source that knows how many bytes were pulled"""

    def __init__(self, b):
        self.b, self.n = b, 0

    def __iter__(self):
        return self

    def __next__(self):
        if self.n >= len(self.b):
            raise StopIteration
        v = self.b[self.n]
        self.n += 1
        return v


def mega_case(rng, n_min):
    """a long capture: one generated exchange with a buffer of tens of kB, repeated until the capture is longer than n_min
    bytes, cut inside the last exchange.  Everything is checked while the single decode proceeds (nothing of this size is
    kept): the events equal those of the exchange decoded alone, over and over (==), the pull bound at every event, and
    the end - the events of the cut exchange decoded alone, then the depleted error."""
    from .. import gen
    L = layout()
    for _ in range(40):
        k = gen.Knobs(rng)
        k.huge_buf = rng.choice((30000, 32768, 40000, 50000, 60000, 65000))
        k.p_fail, k.p_enc = 0.0, 0.0
        g = gen.Gen(rng, k)
        g.allow_huge = True
        cmd, rsp = g.exchange(cc=None)
        cb, _ = gen.serialise(cmd)
        g.used_huge = False
        rsp = g.response(cmd[2], enc=False, fail=False, n_sessions=None)
        rb, _ = gen.serialise(rsp)
        e = cb + rb
        if len(e) >= 20000:
            break
    else:
        return None
    m = n_min // len(e) + 2
    back = rng.choice((1, 2, 7, len(rb) // 2, len(rb) - 3, len(rb) + 5))
    return {"input": {"root": model.STREAM, "cc": None, "enc": None, "label": "mega-stream:%dx%d" % (m, len(e)), "cut": m * len(e) - back, "len": m * len(e),
                      "mode": "mega", "exchange": e.hex(), "copies": m, "back": back},
            "tasks": [], "schedule": {"policy": "sequential", "order": []}}


def check_mega(case, res):
    from tpmstream.io.binary import Binary
    inp = case["input"]
    e = bytes.fromhex(inp["exchange"])
    m, back = inp["copies"], inp["back"]
    label = "%s cut %d bytes before the end" % (inp["label"], back)
    T = real.get_type(model.STREAM)

    def alone(buf):
        evs, exc = [], None
        try:
            for ev in Binary.marshal(tpm_type=T, buffer=buf, abort_on_error=True):
                evs.append(ev)
        except Exception as x:  # noqa - compared, not judged here
            exc = x
        return evs, exc
    ref, exc = alone(e)
    if exc is not None:
        raise HarnessError("mega: the generated exchange does not decode alone: %r" % (exc,))
    last, last_exc = alone(e[:len(e) - back])
    src = _Counter(bytes(e) * (m - 1) + e[:len(e) - back])
    total = len(src.b)
    n, cum, nref = 0, 0, len(ref)
    widths_ref = [(ev.type._int_size if (ev.value is not ... and hasattr(ev.type, "_int_size")) else 0) for ev in ref]
    widths_last = [(ev.type._int_size if (ev.value is not ... and hasattr(ev.type, "_int_size")) else 0) for ev in last]
    expect_n = (m - 1) * nref + len(last)
    n_rep = (m - 1) * nref
    got_exc = None
    bad = None
    j = 0
    decode = Binary.marshal(tpm_type=T, buffer=src, abort_on_error=True)
    while True:
        try:
            ev = next(decode)
        except StopIteration:
            break
        except Exception as x:  # noqa - the end of the decode; compared below
            got_exc = x
            break
        if n < n_rep:
            want, wd = ref[j], widths_ref[j]
            j += 1
            if j == nref:
                j = 0
        elif n - n_rep < len(last):
            want, wd = last[n - n_rep], widths_last[n - n_rep]
        else:
            want, wd = None, 0
        if bad is None and (want is None or not (ev == want)):
            same = want is not None and real.ev_item(ev) == real.ev_item(want)
            bad = (n, real.ev_item(ev), None if want is None else real.ev_item(want), same)
        cum += wd
        if src.n > cum + 1 and bad is None:
            res.v("C10.a", "C10.a:lookahead:binary", "%s: %d bytes had been pulled when event %d was emitted; fields so far hold %d bytes" % (label, src.n, n, cum))
            bad = False
        n += 1
    res.count("mega:events", n)
    res.count("mega:bytes", total)
    if bad:
        k_, g_, w_, same = bad
        res.v("C10.b", "C10.b:prefix:%s" % ("type-identity" if same else "events"),
              "%s: event %d of the capture is %r, the same exchange decoded alone gives %r" % (label, k_, g_, w_))
    elif n != expect_n and bad is None:
        res.v("C10.c", "C10.c:complete-fields", "%s: %d events were emitted before %r (%d bytes pulled of %d); the exchanges decoded one by one give %d" % (
            label, n, real.errsum(got_exc)[:1] if got_exc else None, src.n, total, expect_n))
    a = type(got_exc).__name__ if got_exc is not None else None
    b = type(last_exc).__name__ if last_exc is not None else None
    if a != b and bad is None and n == expect_n:
        res.v("C10.c", "C10.c:end", "%s: the capture ends with %s, its last (cut) exchange decoded alone ends with %s" % (label, a, b))
    res.nontrivial("mega", inp["exchange"][:64], m, back)


def make_case(i, rng, tier):
    if i in MEGA.get(tier, {}):
        c = mega_case(rng, MEGA[tier][i])
        if c:
            return c
    if rng.random() < 0.0012:
        data, bounds = distinct_stream(rng)
        k = bounds[-1] - rng.choice((3, 1, 7))
        mk = lambda tid, d: common.spec(tid, model.STREAM, d, None, None, strict=False, source="bytes")
        return {"input": {"root": model.STREAM, "cc": None, "enc": None, "label": "distinct-stream:%d" % (len(bounds) // 2), "cut": k, "len": len(data), "mode": "distinct"},
                "tasks": [mk("whole", data), mk("prefix", data[:k])], "schedule": {"policy": "sequential", "order": ["whole", "prefix"] if rng.random() < 0.5 else ["prefix", "whole"]}}
    inp = common.gen_input(rng, common.target_for(i, rng), huge="lite")
    data = inp["data"]
    o = model.decode(inp["root"], data, cc=inp["cc"], enc=inp["enc"])
    if not o.ok:
        raise HarnessError("generator produced a malformed input")
    n = len(data)
    if n and rng.random() < 0.7:
        prims = [it for it in o.items if it[0] == "P"]
        it = rng.choice(prims)
        k = rng.choice([it[4], it[4] + 1, it[4] + it[5] - 1, it[4] + it[5], rng.randrange(n), n - 1, 1, 0])
        k = max(0, min(n, k))
    else:
        k = n
    pre = data[:k]
    mk = lambda tid, d, **kw: common.spec(tid, inp["root"], d, inp["cc"], inp["enc"], strict=True, **kw)
    tasks = [mk("whole", data, source="counting"), mk("prefix", pre, source="counting")]
    for j, kind in enumerate(rng.sample(OTHER_KINDS, 3)):
        tasks.append(mk("src%d" % j, pre, source=kind))
    chunks = [rng.choice((1, 1, 2, 3, 5, 8, 16, 64)) for _ in range(rng.randint(1, 4))]
    tasks.append(mk("file", pre, source="simfile" if rng.random() < 0.7 else "simfile_text", chunks=chunks))
    tasks.append(mk("live", pre, source="growing", chunks=[rng.choice((16, 24, 64))]))
    cuts = sorted(rng.randrange(0, k + 1) for _ in range(rng.randint(1, 3)))
    tasks.append(mk("files", pre, source="simfiles", chunks=cuts))
    if inp["root"] in (model.STREAM, "Command", "Response") or rng.random() < 0.5:
        hx = medium.write_hex(pre, rng)
        tasks.append(dict(mk("hex", b""), data=hx.hex(), front="hex", source="counting"))
        if rng.random() < 0.5:
            tasks.append(dict(mk("hexlive", b""), data=hx.hex(), front="hex", source="growing", chunks=[rng.choice((40, 64, 200))]))
        if inp["root"] == model.STREAM and pre:
            bounds = [b for b in o.boundaries if b <= k] + ([k] if k not in o.boundaries else [])
            lg = medium.write_swtpm_log(pre, sorted(set(bounds)), rng)
            tasks.append(dict(mk("swtpm", b""), data=lg.hex(), front="swtpm", source="counting"))
            bb = sorted(set(bounds))
            pc, _meta = medium.write_pcapng([pre[a:b] for a, b in zip(bb, bb[1:])], rng)
            if medium.ref_pcapng_carried(pc) == pre:
                # a packet capture of the same (prefix of the) traffic; sources vary, the front-end reads it as a whole
                tasks.append(dict(mk("pcap", b""), data=pc.hex(), front="pcapng", source=rng.choice(("bytes", "gen", "list", "simfile")), chunks=[4096]))
    tasks, sched = common.perturb(rng, tasks, p_by=0.1)
    return {"input": {"root": inp["root"], "cc": inp["cc"], "enc": inp["enc"], "label": inp["label"], "cut": k, "len": n},
            "tasks": tasks, "schedule": sched}


def widths(items):
    """cumulative bytes of the primitive events, per event index"""
    from ..tiling import width_and_bytes
    out, tot = [], 0
    for it in items:
        if it[0] == "P":
            w, _ = width_and_bytes(it)
            tot += w or 0
        out.append(tot)
    return out


def check(case):
    res = Result()
    if case["input"].get("mode") == "mega":
        check_mega(case, res)
        return res
    w = common.run_world(case, res)
    label = "%s cut %d/%d" % (case["input"]["label"], case["input"]["cut"], case["input"]["len"])
    whole, pre = w.tasks["whole"], w.tasks["prefix"]
    if case["input"].get("mode") == "distinct":
        # only the prefix clause, with == on the real events (declared types are compared by identity)
        n_ = sum(1 for it in pre.items if it[0] != "W")
        a_, b_ = [e for e, it in zip(pre.events, pre.items) if it[0] != "W"], [e for e, it in zip(whole.events, whole.items) if it[0] != "W"][:n_]
        if a_ != b_:
            j_ = next((x for x, (p_, q_) in enumerate(zip(a_, b_)) if p_ != q_), min(len(a_), len(b_)))
            same = j_ < min(len(a_), len(b_)) and real.ev_item(a_[j_]) == real.ev_item(b_[j_])
            res.v("C10.b", "C10.b:prefix:%s" % ("type-identity" if same else "events"), "%s: the events of the prefix are not a prefix (==) of the events of the whole "
                  "capture: event %d differs%s" % (label, j_, " (comparable forms equal, declared type objects differ)" if same else ""))
        res.count("distinct-stream-prefix-compared")
        res.nontrivial("distinct", whole.spec["data"][:64], case["input"]["cut"])
        return res
    if whole.exc_sum is not None:
        res.count("cross:whole-raised")
        return res
    # (a) look-ahead bound at every yielded event (binary, counting source)
    for t in (whole, pre):
        cum = widths(t.items)
        for n, (pulls, c) in enumerate(zip(t.pulls_at, cum)):
            if pulls > c + 1:
                res.v("C10.a", "C10.a:lookahead:binary", "%s: %s task had pulled %d bytes when event %d %r was emitted; fields so far hold %d bytes" % (
                    label, t.id, pulls, n, t.items[n], c))
                break
        res.count("events-bound-checked", len(t.items))
    # text front-ends: characters pulled <= end of the pair carrying byte (c+1)
    for tid, reader in (("hex", medium.ref_hex_pair_ends), ("swtpm", medium.ref_swtpm_pair_ends)):
        t = w.tasks.get(tid)
        if t is None:
            continue
        text = bytes.fromhex(t.spec["data"])
        ends = reader(text)          # ends[j] = index just after the 2nd digit of byte j
        cum = widths(t.items)
        for n, (pulls, c) in enumerate(zip(t.pulls_at, cum)):
            allowed = ends[c] if c < len(ends) else len(text)
            if pulls > allowed:
                res.v("C10.a", "C10.a:lookahead:%s" % tid, "%s: %s front-end had pulled %d characters at event %d %r; the look-ahead byte %d ends at character %d" % (
                    label, tid, pulls, n, t.items[n], c, allowed))
                break
        res.count("events-bound-checked:" + tid, len(t.items))
    t = w.tasks.get("file")
    if t is not None:
        cum = widths(t.items)
        chunks = t.spec["chunks"]
        for n, (pos, c) in enumerate(zip(t.pulls_at, cum)):
            # bytes read from the file so far: at most the read boundary at or after byte c+1
            allowed, j = 0, 0
            while allowed < c + 1 and allowed < t.n_input:
                allowed += max(1, chunks[j % len(chunks)])
                j += 1
            if pos is not None and pos > min(allowed, t.n_input):
                res.v("C10.a", "C10.a:lookahead:file", "%s: %d bytes read from the file at event %d; fields so far hold %d bytes, chunks %s" % (
                    label, pos, n, c, chunks))
                break
    # (b) prefix stability, (c) completeness
    k = case["input"]["cut"]
    if pre.items == whole.items[:len(pre.items)] and pre.events != whole.events[:len(pre.events)]:
        res.v("C10.b", "C10.b:prefix:type-identity", "%s: the events of the prefix equal the first events of the whole input in every comparable form, but not with == "
              "(declared type objects differ)" % label)
    if pre.items != whole.items[:len(pre.items)]:
        res.v("C10.b", "C10.b:prefix", "%s: %s" % (label, common.show_diff(pre.items, whole.items[:len(pre.items)], "prefix events vs events of the whole input")))
    cumw = widths(whole.items)
    complete = sum(1 for it, c in zip(whole.items, cumw) if it[0] == "P" and c <= k)
    got = sum(1 for it in pre.items if it[0] == "P")
    if got != complete:
        res.v("C10.c", "C10.c:complete-fields", "%s: %d primitive fields are complete in the prefix, %d were emitted before %r" % (
            label, complete, got, pre.exc_sum))
    # a proper prefix that does not end at a message boundary must end with the depleted error (it is what the
    # fields are emitted "before"); zero-width tails (empty trailing structures) excepted
    n_total = case["input"]["len"]
    if k < n_total and pre.exc_sum is None:
        from .. import model as _m
        o_whole = _m.decode(whole.spec["type"], bytes.fromhex(whole.spec["data"]), cc=whole.spec.get("cc"), enc=whole.spec.get("enc"))
        at_boundary = whole.spec["type"] == _m.STREAM and k in o_whole.boundaries
        if not at_boundary:
            res.v("C10.c", "C10.c:no-depleted-error", "%s: decoding the proper prefix completed normally after %d events instead of raising the depleted error" % (label, len(pre.items)))
    # (d) source-agnostic
    ref = (pre.items, pre.outcome())
    for tid, t in sorted(w.tasks.items()):
        if tid in ("whole", "prefix") or tid.startswith("by"):
            continue
        if (t.items, t.outcome()) != ref:
            res.v("C10.d", "C10.d:%s" % (t.spec.get("front", "binary") + ":" + t.spec.get("source", "bytes")),
                  "%s: task %s (%s/%s) differs from the counting-source decode: %s; outcomes %r vs %r" % (
                      label, tid, t.spec.get("front", "binary"), t.spec.get("source"), common.show_diff(t.items, pre.items), t.outcome(), pre.outcome()))
            break
        res.count("source-compared:" + t.spec.get("front", "binary") + ":" + t.spec.get("source", "bytes"))
    res.count("fault:trunc" if k < case["input"]["len"] else "whole-input")
    res.nontrivial(pre.spec["type"], pre.spec.get("cc"), whole.spec["data"], k)
    return res


def shrink(case):
    yield from common.shrink_tasks(case, {t["id"] for t in case["tasks"] if not t["id"].startswith("by")})

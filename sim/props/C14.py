"""C14 - the printers show every event and every byte exactly once, in order.

Workload: event streams of all input families, both modes; the printers run as lazy consumer tasks
fed by the decoder task.  Rows are parsed by *tokens* after stripping ANSI sequences (no column
widths, no colours): [type] '|'*depth '.name' [hex] value-tokens.
"""
import re

from .. import oracle, real
from ..runner import Result
from . import common

ID = "C14"
LEVEL = "exploration"
RULE = ("each run: one input of the C01-C08 families, decoded in strict or warn mode, feeding Pretty.unmarshal and "
        "Events.unmarshal as consumer tasks under a seeded schedule; non-trivial = rows were matched token by token "
        "against the rows derived from the recorded events; distinct = distinct (type, cc, flag, mode, bytes)")
REAL = common.REAL_DECODER + ["tpmstream.io.pretty.unmarshal", "tpmstream.io.events.unmarshal", "tpmstream.io.binary.unmarshal"]
ASSUMPTIONS = ["row derivation from events is this module's own folding logic (byte buffers -> one row, warnings inside a "
               "buffer before or after its row, non-byte list parents zero or one row)", "bit rows are counted, their bit "
               "patterns are not judged (C17 is not claimed)"]
TIERS = {"quick": {"runs": 40000, "budget": 150}, "thorough": {"runs": 500000, "budget": 780}}
ANSI = re.compile(r"\x1b\[[0-9;]*m")
PRINTABLE = set(range(0x20, 0x7F))


def make_case(i, rng, tier):
    if rng.random() < 0.0003:
        # a capture of more than 65536 events (hashing a file through the TPM in 1 kB pieces): printers that work in
        # batches meet a buffer that straddles a batch
        inp = common.fat_stream(rng, rng.choice((66000, 70000, 132000)))
        p = common.spec("pretty", inp["root"], inp["data"], None, None, strict=rng.random() < 0.5, consumer="pretty")
        e = dict(p, id="events", consumer="events")
        return {"input": {"root": inp["root"], "cc": None, "enc": None, "label": inp["label"], "family": "wellformed", "orig": ""},
                "faults": [], "tasks": [p, e], "schedule": {"policy": "sequential"}}
    if rng.random() < 0.012:
        # two captures full of *failed* responses (different response codes: format one / zero, warnings, vendor), printed
        # by two printers that are stepped row by row in turn: whatever one printer builds for the bit rows of a response
        # code must not be shared with the other one
        from .. import gen as _gen
        caps = []
        for _ in range(2):
            k = _gen.Knobs(rng)
            k.p_fail, k.p_sessions, k.max_buf, k.max_list = 1.0, 0.0, min(k.max_buf, 4), min(k.max_list, 1)
            caps.append(common.gen_input(rng, ("stream", None), k))
        a, b = caps
        p = common.spec("pretty", a["root"], a["data"], None, None, strict=True, consumer="pretty", source="bytes")
        e = common.spec("events", a["root"], a["data"], None, None, strict=True, consumer="events", source="bytes")
        q = common.spec("by-pretty", b["root"], b["data"], None, None, strict=True, consumer="pretty", source="bytes")
        return {"input": {"root": a["root"], "cc": None, "enc": None, "label": "failed-responses:" + a["label"], "family": "wellformed", "orig": bytes(a["data"]).hex()},
                "faults": [], "tasks": [p, q, e], "schedule": {"policy": "round_robin"}}
    inp, data, recs, fam = common.gen_malformed(rng, i, p_wellformed=0.45)
    strict = rng.random() < 0.4
    p = common.spec("pretty", inp["root"], data, inp["cc"], inp["enc"], strict=strict, consumer="pretty")
    e = common.spec("events", inp["root"], data, inp["cc"], inp["enc"], strict=strict, consumer="events")
    extra = []
    if rng.random() < 0.3:
        # a second, unrelated printer pipeline stepped in between (printers must not share anything)
        inp2, data2, _r2, _f2 = common.gen_malformed(rng, 10 ** 9, p_wellformed=0.3, allow_random=False)
        extra.append(common.spec("by-pretty", inp2["root"], data2, inp2["cc"], inp2["enc"], strict=rng.random() < 0.3, consumer="pretty"))
    tasks, sched = common.perturb(rng, [p, e] + extra, p_by=0.15, roots=True)
    if extra and sched.get("policy") == "sequential" and rng.random() < 0.7:
        sched = {"policy": "round_robin"}
    return {"input": {"root": inp["root"], "cc": inp["cc"], "enc": inp["enc"], "label": inp["label"], "family": fam, "orig": bytes(inp["data"]).hex()},
            "faults": recs, "tasks": tasks, "schedule": sched}


def text_form(v):
    """the value's text form as the printers (and MarshalEvent.__str__) render it"""
    return "{}".format(v)


def path_last(e):
    return str(e.path[-1])


def expected_rows(events, root_nodes=1):
    """[(kind, tokens | alternatives)] derived from the events by this module's own folding"""
    from tpmstream.common.event import MarshalEvent
    from tpmstream.common.util import is_list
    from tpmstream.spec.structures.base_types import BYTE
    rows = []
    i, n = 0, len(events)
    while i < n:
        e = events[i]
        if not isinstance(e, MarshalEvent):
            rows.append(("warn", ("Warning: %s" % e.error).split()))
            i += 1
            continue
        depth = len(e.path) - 1
        head = [real.tdesc(e.type)] + ["|"] * depth + ["." + path_last(e)]
        if e.value is ... and is_list(e.type) and e.type.__args__[0] is BYTE:
            # byte buffer: all following elements (same parent, same name) fold into one row
            buf = b""
            warns = []
            j = i + 1
            while j < n:
                c = events[j]
                if not isinstance(c, MarshalEvent):
                    warns.append(("warn", ("Warning: %s" % c.error).split()))
                    j += 1
                    continue
                if c.path[:-1] == e.path[:-1] and c.path[-1].name == e.path[-1].name and c.value is not ...:
                    buf += c.value.to_bytes()
                    j += 1
                    continue
                break
            # trailing warnings after the last element belong to whatever follows, not to the buffer
            k = j
            trailing = 0
            while k > i + 1 and not isinstance(events[k - 1], MarshalEvent):
                k -= 1
                trailing += 1
            text = "".join(chr(b) if b in PRINTABLE else "." for b in buf)
            toks = head + ([buf.hex()] if buf else []) + text.split()
            rows.append(("buffer", toks, warns, buf))
            i = j
            continue
        if e.value is ... and is_list(e.type):
            # a non-byte list parent: shown through its elements (zero or one row of its own) - unless no element
            # event follows, then its own row is the only place the event can be shown: exactly one row
            j = i + 1
            while j < n and not isinstance(events[j], MarshalEvent):
                j += 1
            has_elems = j < n and events[j].path[:-1] == e.path[:-1] and events[j].path[-1].name == e.path[-1].name \
                and events[j].path[-1].index is not None
            rows.append(("listparent", head, not has_elems))
            i += 1
            continue
        if e.value is ...:
            rows.append(("struct", head))
            i += 1
            continue
        b = e.value.to_bytes()
        rows.append(("prim", head + [b.hex()] + text_form(e.value).split(), b))
        # "attribute words that are not list elements": the root value is never one, whatever its caller-chosen path is
        if hasattr(e.value, "attributes") and (e.path[-1].index is None or len(e.path) <= root_nodes):
            for a in e.value.attributes():
                rows.append(("bits", ["|"] * (depth + 1) + ["." + a._name]))
        i += 1
    return rows


class _End(Exception):
    pass


def match_rows(lines, rows, prefix=False):
    """sequential matcher with the two admissible relaxations; -> (ok, message, hex bytes shown).
    prefix=True: the decoder raised, so the printer did not see the end of the stream - the rows it produced must be a
    prefix of the expected rows (rows of a byte buffer still being folded are lost with the exception)."""
    toks = [ANSI.sub("", ln).split() for ln in lines]
    shown = b""
    li = 0

    def need(expected, what):
        nonlocal li
        if li >= len(toks):
            if prefix:
                raise _End()
            return "row missing for %s: %r" % (what, expected)
        if toks[li] != expected:
            return "row %d for %s: got %r, expected %r" % (li, what, toks[li], expected)
        li += 1
        return None

    pending = None      # row of an element-less non-byte list parent; may also follow the warnings right after it
    must = False        # ... and is mandatory when no element event follows (the only place the event can be shown)
    try:
        for r in rows:
            kind = r[0]
            if pending is not None and kind != "warn":
                if li < len(toks) and toks[li] == pending:
                    li += 1
                elif must:
                    err = need(pending, "list without elements")
                    return False, err, shown
                pending = None
            if kind in ("struct", "prim", "warn"):
                err = need(r[1], kind)
                if err:
                    return False, err, shown
                if kind == "prim":
                    shown += r[2]
            elif kind == "listparent":
                if li < len(toks) and toks[li] == r[1]:
                    li += 1
                else:
                    pending, must = r[1], r[2]
            elif kind == "bits":
                if li >= len(toks):
                    if prefix:
                        raise _End()
                    return False, "bit row missing: %r" % (r[1],), shown
                t = toks[li]
                if t[:len(r[1])] != r[1] or len(t) <= len(r[1]):
                    return False, "row %d: expected bit row %r + bits, got %r" % (li, r[1], t), shown
                li += 1
            elif kind == "buffer":
                _, btoks, warns, buf = r
                # warnings raised inside the buffer may precede or follow the buffer's row
                save = li
                ok = False
                ended = False
                for order in ((warns, [("b", btoks)]), ([("b", btoks)], warns)):
                    li = save
                    good = True
                    try:
                        for part in order:
                            for x in part:
                                if need(x[1], "byte buffer" if x[0] == "b" else "warning inside buffer"):
                                    good = False
                                    break
                            if not good:
                                break
                    except _End:
                        ended = True
                        break
                    if good:
                        ok = True
                        break
                if ended:
                    raise _End()
                if not ok:
                    li = save
                    err = need(btoks, "byte buffer %s" % btoks[-1 if not buf else 0])
                    return False, err or "warnings inside the buffer are neither before nor after its row", shown
                shown += buf
    except _End:
        return True, "", shown
    if pending is not None:
        if li < len(toks) and toks[li] == pending:
            li += 1
        elif must and not prefix:
            return False, "row missing for list without elements: %r" % (pending,), shown
    if li != len(toks):
        return False, "%d extra row(s), first: %r" % (len(toks) - li, toks[li]), shown
    return True, "", shown


def check(case):
    res = Result()
    w = common.run_world(case, res)
    common.count_faults(res, case)
    tp, te = w.tasks["pretty"], w.tasks["events"]
    mode = "strict" if tp.spec.get("strict", True) else "warn"
    label = "%s [%s, %s] %s" % (case["input"]["label"], case["input"].get("family"), mode, case["faults"])
    res.count("mode:" + mode)
    data = bytes.fromhex(tp.spec["data"])
    for t, name in ((tp, "pretty"), (te, "events")):
        if t.exc is not None and not t.decoder_raised:
            res.v("C14.a", "C14.a:%s:%s@%s" % (name, type(t.exc).__name__, t.site),
                  "%s: %s printer raised %s: %s (in %s) after %d events" % (label, name, type(t.exc).__name__, str(t.exc)[:200], t.site, len(t.events)))
        elif t.exc is not None and not real.is_documented(t.exc):
            res.count("cross:decoder-internal-error")
    if tp.exc is not None and not (tp.decoder_raised and real.is_documented(tp.exc)):
        return res
    # pretty rows (the decoder may have raised a documented error: rows cover the events emitted so far,
    # except that rows of a byte buffer still being folded are lost with the exception)
    events = tp.events
    res.count("warning-events", sum(1 for it in tp.items if it[0] == "W"))
    res.count("events", len(events))
    rows = expected_rows(events, max(1, len((tp.spec.get("root_path") or "").split("."))))
    lines = tp.out
    if tp.exc is not None:
        # the printer did not see the end of the stream; compare the rows it produced as a prefix
        ok, msg, shown = match_rows(lines, rows, prefix=True)
    else:
        ok, msg, shown = match_rows(lines, rows)
        fields = b"".join(e.value.to_bytes() for e, it in zip(events, tp.items) if it[0] == "P")
        if ok and shown != fields:
            res.v("C14.d", "C14.d:hex-column", "%s: hex column shows %d bytes, decoded fields hold %d" % (label, len(shown), len(fields)))
        if ok and tp.exc is None and not any(it[0] == "W" for it in tp.items) and oracle.real_kind(tp) == "ok" and case["input"].get("family") == "wellformed" and shown != data:
            res.v("C14.d", "C14.d:input", "%s: hex column of a well-formed input differs from the input" % label)
    if not ok:
        clause = "C14.c" if "bit row" in msg else "C14.b"
        what = "bits" if clause == "C14.c" else "empty-list" if "list without elements" in msg else ("warning" if "warning" in msg.lower() and "Warning:" in msg else "buffer" if "byte buffer" in msg else "row")
        res.v(clause, "%s:%s:%s" % (clause, what, mode), "%s: %s" % (label, msg))
    # C14.h: the rows are a function of the events.  When other printers ran in between, the recorded events are printed
    # once more, alone; the rows must be the same (bit rows and their descriptions included - whatever they say, they say
    # it about *this* stream's values)
    if ok and tp.exc is None and "by-pretty" in w.tasks and len(events) < 20000:
        from tpmstream.io.pretty import Pretty
        try:
            again = [ANSI.sub("", ln_) for ln_ in Pretty.unmarshal(iter(events))]
        except Exception as x_:  # noqa - the first printing of the same events completed
            again = ["<raised %s>" % type(x_).__name__]
        mine = [ANSI.sub("", ln_) for ln_ in lines]
        res.count("printed-again-alone")
        if again != mine:
            n_ = next((k_ for k_, (a_, b_) in enumerate(zip(mine, again)) if a_ != b_), min(len(mine), len(again)))
            res.v("C14.h", "C14.h:rows-depend-on-other-printer:%s" % mode,
                  "%s: the same events printed again alone give other rows than next to a second printer; row %d: %r vs alone %r" % (
                      label, n_, " ".join((mine[n_] if n_ < len(mine) else "<end>").split())[:160], " ".join((again[n_] if n_ < len(again) else "<end>").split())[:160]))
    # C14.f: "its value column is the value's text form" - rows were compared with format(value) above; format(value) is
    # compared with the pinned text form of (declared type, integer) here, for valid values of the pinned types
    from ..layout import layout
    L = layout()
    for e, it in zip(events, tp.items):
        if it[0] != "P":
            continue
        want = L.text(it[2], it[3])
        if want is not None and text_form(e.value) != want:
            res.v("C14.f", "C14.f:text:%s" % it[2], "%s: value column of %s %s = %d shows %r, its text form is %r" % (
                label, it[2], it[1], it[3], text_form(e.value), want))
            break
    # the same printing in a fresh interpreter whose environment a user may well have (NO_COLOR, a dumb terminal, ...): the
    # rows (colour codes aside) and the outcome must be the same
    if int(__import__("hashlib").sha256(tp.spec["data"].encode()).hexdigest()[:6], 16) % 300 == 0 and len(tp.spec["data"]) < 6000 and not any(t_.get("root_path") for t_ in case["tasks"]):
        from .. import pristine
        envs = ({"NO_COLOR": "1"}, {"TERM": "dumb"}, {"NO_COLOR": "1", "TERM": "dumb"}, {"COLUMNS": "40", "LINES": "10"}, {"PYTHONIOENCODING": "ascii", "LC_ALL": "C"})
        env = envs[len(tp.spec["data"]) % len(envs)]
        specs_ = [dict(tp.spec, source="bytes"), dict(te.spec, source="bytes")]
        for s_ in specs_:
            for k_ in ("cancel_at", "chunks", "in_except"):
                s_.pop(k_, None)
        fresh = pristine.run_fresh(specs_, env_extra=env)
        res.count("printed-in-fresh-interpreter-with-env")
        for t_, fr in zip((tp, te), fresh):
            mine = pristine.summarise(t_)
            if mine != fr:
                what = "rows" if mine[:2] == fr[:2] and mine[3:] == fr[3:] else "outcome"
                res.v("C14.a", "C14.a:environment:%s:%s" % (t_.id, what), "%s: %s printer in a fresh interpreter with %s in its environment: %s differ - %s vs %s" % (
                    label, t_.id, env, what, str(fr[3] if what == "outcome" else "")[:200], common.show_diff(fr[2], mine[2], "rows") if what == "rows" else str(mine[3])))
                break
    res.count("rows", len(lines))
    res.count("rows:bits", sum(1 for r in rows if r[0] == "bits"))
    res.count("rows:buffer", sum(1 for r in rows if r[0] == "buffer"))
    # events printer: besides terminating without error (checked above) it "shows every event exactly once": one line per
    # event, in order, the line of a field event naming its path.  Layout, colours and value rendering are not judged.
    if te.exc is None:
        res.count("events-printer-lines", len(te.out))
        if len(te.out) != len(te.events):
            res.v("C14.g", "C14.g:events-printer:count:%s" % mode, "%s: the events printer produced %d line(s) for %d event(s)" % (label, len(te.out), len(te.events)))
        else:
            for n_, (ln, ev) in enumerate(zip(te.out, te.events)):
                if hasattr(ev, "path") and str(ev.path) not in ANSI.sub("", ln):
                    res.v("C14.g", "C14.g:events-printer:path:%s" % mode, "%s: line %d of the events printer does not name the path %r: %r" % (
                        label, n_, str(ev.path), ANSI.sub("", ln)[:120]))
                    break
    res.nontrivial(tp.spec["type"], tp.spec.get("cc"), tp.spec.get("enc"), mode, tp.spec["data"])
    return res


def shrink(case):
    yield from common.shrink_faults(case, ("pretty", "events"))
    yield from common.shrink_tasks(case, {"pretty", "events"})
    for tid in ("pretty", "events"):
        for c in common.shrink_bytes_tail(case, tid):
            # keep both tasks on the same bytes
            d = next(t["data"] for t in c["tasks"] if t["id"] == tid)
            c["tasks"] = [dict(t, data=d) if t["id"] in ("pretty", "events") else t for t in c["tasks"]]
            yield c
        break
    yield from common.shrink_buffers(case, ("pretty", "events"))

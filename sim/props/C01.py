"""C01 - well-formed encodings decode to exactly the field-by-field event sequence.

Workload: fault-free runs; deterministic sweep over every root type and every command code in
every framing, then seeded sampling with swarm knobs.  Source kind, schedule and bystanders vary as
perturbations.  Oracle: refinement against the reference model over the recorded history.
"""
from .. import model, real
from ..runner import HarnessError, Result
from . import common

ID = "C01"
LEVEL = "exploration"
RULE = ("seeded simulation runs: run i<%d sweeps every root type / command code x framing once, later runs sample "
        "targets and swarm knobs from sha256(VERIF_SEED:C01:tier:i); a run is non-trivial when the strict decode of "
        "the generated well-formed input was compared item by item with the reference model; distinct = distinct "
        "(root, cc, flag, input bytes) digests" % len(common.sweep_targets()))
REAL = common.REAL_DECODER
ASSUMPTIONS = ["reference model + pinned layout snapshot (layout/tpm20_layout.json, extracted once from f0740e3) are "
               "the definition of 'what the layout tables dictate'",
               "generator self-check: serialised tree items == reference decode items on every run",
               "pinned text forms (layout/tpm20_textforms.json) of valid values; attribute words and response codes are not pinned"]
TIERS = {"quick": {"runs": 40000, "budget": 150}, "thorough": {"runs": 600000, "budget": 780}}


def make_case(i, rng, tier):
    target = common.target_for(i, rng)
    inp = common.gen_input(rng, target, huge=True)
    o = model.decode(inp["root"], inp["data"], cc=inp["cc"], enc=inp["enc"])
    if not o.ok or o.items != inp["items"] or o.unspecified:
        raise HarnessError("generator/model self-check failed for %s: %s / %s" % (
            inp["label"], o.problem or o.unspecified, common.show_diff(o.items, inp["items"], "items")))
    main = common.stray_cc(rng, common.spec("main", inp, strict=True))
    tasks, sched = common.perturb(rng, [main], roots=True)
    return {"input": {"root": inp["root"], "cc": inp["cc"], "enc": inp["enc"], "label": inp["label"], "optimized": rng.random() < 0.003, "threads": rng.randrange(1 << 30) if rng.random() < 0.0015 else None,
                      "arms": sorted(set("%s.%s" % a for a in inp["arms"]))[:40]},
            "tasks": tasks, "schedule": sched}


def check(case):
    res = Result()
    w = common.run_world(case, res)
    t = w.tasks["main"]
    s = t.spec
    data = bytes.fromhex(s["data"])
    o = model.decode(s["type"], data, cc=s.get("cc"), enc=s.get("enc"))
    if not o.ok or o.unspecified:
        res.count("skipped:not-wellformed")
        return res
    label = case["input"].get("label", s["type"])
    kind = label.split(":")[0]
    res.count("root:" + kind)
    res.count("messages", max(1, len(o.msgs)))
    for a in case["input"].get("arms", []):
        res.count("arm:" + a)
    if kind in ("command", "response", "stream"):
        res.count("cfg:" + ":".join(label.split(":")[2:]) if kind != "stream" else "cfg:stream")
    else:
        res.count("type:" + s["type"])
    for m in o.msgs:
        res.count("cc:%s:%s" % (m["kind"], m["cc"]))
    exp = [real.model_item(x) for x in o.items]
    if t.exc_sum is not None:
        res.v("C01.a", "C01.a:%s@%s" % (t.exc_sum[0], t.site),
              "strict decode of a well-formed %s raised %r after %d events" % (label, t.exc_sum, len(t.items)))
    elif t.items != exp:
        d = common.first_diff(t.items, exp)
        field = "len" if d[1] == "<end>" or d[2] == "<end>" else _which(d[1], d[2])
        clause = "C01.b"
        res.v(clause, "%s:%s:%s" % (clause, field, _tname(d[2], d[1])),
              "%s: %s" % (label, common.show_diff(t.items, exp)))
    else:
        # C01.f: the interpretation includes *which* named member / range element a value is: the text form of every
        # valid value equals the pinned one (member name; range name + zero-padded hex offset; decimal integers)
        from ..layout import layout
        L = layout()
        n_text = 0
        for e, it in zip(t.events, t.items):
            if it[0] != "P":
                continue
            want = L.text(it[2], it[3])
            if want is None:
                continue
            n_text += 1
            got = "{}".format(e.value)
            if got != want:
                res.v("C01.f", "C01.f:text:%s" % it[2], "%s: %s %s = %d renders as %r, the layout tables name it %r" % (
                    label, it[2], it[1], it[3], got, want))
                break
        res.count("text-forms-compared", n_text)
    if case["input"].get("threads") is not None and len(data) < 1500:
        common.check_threads(res, "C01", [dict(s, id="t0"), dict(s, id="t1"), dict(s, id="t2")], case["input"]["threads"], label=label)
    if case["input"].get("optimized") and len(data) < 3000:
        # the same decode in an interpreter started with -O (asserts stripped): the events must be the same ones
        import json
        from .. import pristine
        fr = pristine.run_fresh([dict(s, source="bytes")], optimize=True)[0]
        want = json.loads(json.dumps([exp, ["ok"]], default=str))
        res.count("decoded-under-python-O")
        if fr != want:
            res.v("C01.g", "C01.g:python-O", "%s: decoded by an interpreter started with -O: %s; outcome %s" % (
                label, common.show_diff(fr[0], want[0]), fr[1]))
    res.nontrivial(s["type"], s.get("cc"), s.get("enc"), s["data"])
    return res


def _which(got, exp):
    if got[0] != exp[0]:
        return "class"
    names = ("kind", "path", "type", "value" if got[0] == "P" else "fields", "valueclass")
    for i in range(1, min(len(got), len(exp))):
        if got[i] != exp[i]:
            return names[i]
    return "len"


def _tname(exp, got):
    it = exp if exp != "<end>" else got
    return it[2] if isinstance(it, tuple) and len(it) > 2 else "?"


def shrink(case):
    yield from common.shrink_tasks(case, {"main"})
    yield from common.shrink_buffers(case, ("main",))

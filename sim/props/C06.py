"""C06 - decoding arbitrary bytes terminates with a documented outcome.

Workload: (i) random byte strings, (ii) generated messages under the medium / history fault catalogue
with 1..3 faults, (iii) well-formed messages and bundled-corpus packets decoded as the wrong type -
x all non-union types, Command, Response x command codes x encryption flag, stream.
Oracle: the escaping exception is documented (or none); pulls <= len+1 and StopIteration seen at
most once (counting source); event count within the step cap.
"""
import os

from .. import faults as F
from .. import model, oracle, real, world
from ..layout import layout
from ..runner import Result
from . import common

ID = "C06"
LEVEL = "exploration"
TIMEOUT_IS_VIOLATION = True
RULE = ("each run: one byte string (uniform random / generated message with 1..3 faults of the whole catalogue / "
        "well-formed message or corpus packet decoded as another type) x one root (all non-union structure types, area "
        "types, Command, Response x command code x flag in {None, True}, stream), strict mode, through a counting "
        "source; non-trivial = input is not a well-formed encoding of the root it is decoded as; distinct = distinct "
        "(root, cc, flag, bytes)")
REAL = common.REAL_DECODER + ["tpmstream.spec.commands.params_common (encrypted parameter type synthesis)"]
ASSUMPTIONS = ["documented outcomes: normal completion, ConstraintViolatedError subclasses, InputStreamBytesDepletedError, "
               "InputStreamSuperfluousBytesError", "Response is only decoded with a command code (the CLI refuses otherwise)"]
TIERS = {"quick": {"runs": 100000, "budget": 150, "run_timeout": 120}, "thorough": {"runs": 1500000, "budget": 780, "run_timeout": 120}}

_CORPUS = None


def corpus():
    """packets of the bundled pcap corpus (read with the reference pcapng reader of medium.py)"""
    global _CORPUS
    if _CORPUS is None:
        from .. import medium
        pk = []
        d = os.path.join(os.environ.get("VERIF_REPO_SRC", "/repo/src"), "tpmstream", "data")
        try:
            names = sorted(n for n in os.listdir(d) if n.endswith(".pcap"))
        except OSError:
            names = []
        for n in names[:40]:
            try:
                with open(os.path.join(d, n), "rb") as f:
                    pk += [p for p in medium.ref_pcapng_payloads(f.read()) if len(p) >= 10]
            except Exception:
                pass
        _CORPUS = pk
    return _CORPUS


def random_root(rng):
    L = layout()
    r = rng.random()
    if r < 0.35:
        return rng.choice(L.struct_names()), None, None
    if r < 0.42:
        return rng.choice(L.area_names()), None, None
    if r < 0.62:
        return "Command", None, None
    if r < 0.85:
        return "Response", rng.choice(sorted(L.commands)), rng.choice((None, None, True))
    return model.STREAM, None, None


def make_case(i, rng, tier):
    r = rng.random()
    recs = []
    if r < 0.25:
        n = rng.choice((0, 1, 2, 3, 4, 6, 10, 11, 12, 16, 24, 40, 80))
        hdr = rng.random()
        data = bytes(rng.randrange(256) for _ in range(n))
        if hdr < 0.5 and n >= 10:
            # plausible header so that decoding gets past the first fields
            tag = rng.choice((0x8001, 0x8002))
            data = tag.to_bytes(2, "big") + rng.choice((n, n + 1, n - 1, 0, 10)).to_bytes(4, "big") + \
                rng.choice(sorted(layout().commands) + [0]).to_bytes(4, "big") + data[10:]
        root, cc, enc = random_root(rng)
        label = "random:%d" % n
        recs.append(dict(kind="random-bytes", cls="raw", depth=0, regions=[]))
    elif r < 0.2504:
        # a long capture of very many short exchanges, well-formed or with its last message torn
        inp = common.tiny_stream(rng, rng.choice((1050, 1200, 1200, 2100)))
        data = inp["data"]
        if rng.random() < 0.5:
            data = data[:len(data) - rng.randint(1, 9)]
            recs.append(dict(kind="trunc", cls="raw", depth=0, regions=[], off=len(data), at=len(data)))
        root, cc, enc = model.STREAM, None, None
        label = inp["label"]
        recs.append(dict(kind="many-exchanges", cls="history", depth=0, regions=[]))
    elif r < 0.75:
        inp = common.gen_input(rng, common.target_for(i, rng), huge=True)
        o = model.decode(inp["root"], inp["data"], cc=inp["cc"], enc=inp["enc"])
        data = inp["data"]
        if inp["root"] == model.STREAM and rng.random() < 0.4:
            f = F.history_faults(data, inp["bounds"], rng)
            if f:
                data, rec = f
                recs.append(rec)
        else:
            kinds = sorted(F.MEDIUM)
            k = rng.sample(kinds, rng.randint(2, len(kinds)))
            data, recs = F.apply_random(data, o, rng, k, rng.randint(1, 3))
        root, cc, enc = inp["root"], inp["cc"], inp["enc"]
        if rng.random() < 0.15:
            enc = None if enc else True
            recs.append(dict(kind="flag-flip", cls="arg", depth=0, regions=[]))
        if root == "Response" and rng.random() < 0.15:
            cc = rng.choice(sorted(layout().commands))
            recs.append(dict(kind="wrong-command-code", cls="arg", depth=0, regions=[]))
        label = inp["label"]
    else:
        pk = corpus()
        if pk and rng.random() < 0.5:
            data = rng.choice(pk)
            label = "corpus"
        else:
            inp = common.gen_input(rng, common.target_for(i, rng), huge=True)
            data = inp["data"]
            label = "wellformed:" + inp["label"]
        root, cc, enc = random_root(rng)
        recs.append(dict(kind="wrong-type", cls="arg", depth=0, regions=[]))
    main = common.stray_cc(rng, common.spec("main", root, data, cc, enc, strict=True, source="counting"))
    tasks, sched = common.perturb(rng, [main], p_by=0.1, roots=True)
    return {"input": {"root": root, "cc": cc, "enc": enc, "label": label, "threads": rng.randrange(1 << 30) if rng.random() < 0.001 else None},
            "faults": recs, "tasks": tasks, "schedule": sched}


def check(case):
    res = Result()
    w = common.run_world(case, res)
    t, data, o = common.main_ref(case, w)
    kind = oracle.real_kind(t)
    common.count_faults(res, case, kind)
    res.count("real:" + kind)
    res.count("rm:" + ("unspecified" if o.unspecified else "|".join(oracle.rm_kinds(o))))
    root = t.spec["type"]
    res.count("root:" + (root if root in ("Command", "Response", model.STREAM) else "struct"))
    label = case["input"]["label"]
    arg = "%s(cc=%s, enc=%s) over %d bytes [%s]" % (root, t.spec.get("cc"), t.spec.get("enc"), len(data), label)
    if t.exc_sum is not None and t.exc_sum[0] == "StepCapExceeded":
        res.v("C06.c", "C06.c:step-cap", "%s: more than %d events - does not terminate" % (arg, t.exc_sum[1]))
    elif t.exc is not None and not real.is_documented(t.exc):
        res.v("C06.a", "C06.a:%s@%s" % (type(t.exc).__name__, t.site),
              "%s: escaped with undocumented %s: %s (raised in %s); reference context: %s" % (
                  arg, type(t.exc).__name__, str(t.exc)[:300], t.site, o.unspecified or oracle.rm_kinds(o)))
    if t.calls_at_end is not None:
        pulls, calls, stops = t.calls_at_end
        # at most the available input: every byte once, plus the call(s) that find the source exhausted
        if pulls > len(data) or calls > len(data) + 2:
            res.v("C06.b", "C06.b:pulls", "%s: %d pulls, %d calls, StopIteration raised %d times for %d bytes" % (
                arg, pulls, calls, stops, len(data)))
        res.count("pull-bound-checked")
        if stops > 1:
            res.count("source-polled-again-after-exhaustion")
    if case["input"].get("threads") is not None and len(t.spec["data"]) < 3000:
        sp = dict(t.spec, source="bytes")
        common.check_threads(res, "C06", [dict(sp, id="t0"), dict(sp, id="t1"), dict(sp, id="t2")], case["input"]["threads"], label=arg)
    # types declared during the history (sim/dyntypes.py): every 80-th run or so, derived from the case so that a replay needs nothing else
    if int(__import__("hashlib").sha256(repr(sorted((t_["id"], t_.get("data", "")[:48]) for t_ in case["tasks"])).encode()).hexdigest()[:6], 16) % 80 == 0:
        from .. import dyntypes
        seed_ = int(__import__("hashlib").sha256(repr([t_.get("data", "")[:48] for t_ in case["tasks"]]).encode()).hexdigest()[6:12], 16)
        res.count("types-declared-during-the-history")
        for msg_ in dyntypes.run("C06", seed_):
            res.v("C06.D", "C06.D:declared-later", "a type declared during the history (template seed %d): %s" % (seed_, msg_))
            break
    if not (o.ok and not o.unspecified):
        res.nontrivial(root, t.spec.get("cc"), t.spec.get("enc"), t.spec["data"])
    if o.unspecified:
        res.count("unspecified-context")
    return res


def shrink(case):
    yield from common.shrink_tasks(case, {"main"})
    yield from common.shrink_bytes_tail(case)

"""C08 - warn mode reports problems as warnings and keeps decoding.

Workload: malformed inputs of the C03-C06 families (single and multiple faults), all root types,
streams with the fault in the first, middle or last message.
Oracle: (a) nothing escapes except a justified ValueConstraintViolatedError; (b) tiling of the input
by the emitted fields (model-light candidate-set checker); (c) value-only faults: events equal the
reference model's lenient walk with one warning directly after each offending event.
"""
from .. import model, oracle, real, tiling
from ..layout import layout
from ..runner import Result
from . import common

ID = "C08"
LEVEL = "fault_enumeration"
TIMEOUT_IS_VIOLATION = True
RULE = ("each run: one malformed input (size / value / length / history faults, 1..3 faults, random bytes; streams "
        "of 1..4 exchanges) decoded in warn mode; non-trivial = input is malformed and the warn decode was checked "
        "for escaping exceptions, tiling and (value-only) equality with the lenient reference walk; distinct = "
        "distinct (type, cc, flag, bytes)")
REAL = common.REAL_DECODER + ["tpmstream.spec.commands.params_common"]
ASSUMPTIONS = ["tiling uses a candidate set of positions: when a short inner region declares an end beyond its enclosing "
               "region both 'pad to the inner end' and 'clip at the enclosing region' are accepted",
               "a ValueConstraintViolatedError may escape only for a command code outside the command table or a selector "
               "that selects no union member (checked against the pinned layout)"]
TIERS = {"quick": {"runs": 110000, "budget": 150, "run_timeout": 120}, "thorough": {"runs": 900000, "budget": 780, "run_timeout": 120}}


def make_case(i, rng, tier):
    inp, data, recs, fam = common.gen_malformed(rng, i, p_wellformed=0.03, huge="mid")
    main = common.spec("main", inp["root"], data, inp["cc"], inp["enc"], strict=False)
    tasks, sched = common.perturb(rng, [main], p_by=0.1, roots=True)
    return {"input": {"root": inp["root"], "cc": inp["cc"], "enc": inp["enc"], "label": inp["label"], "family": fam,
                      "orig": bytes(inp["data"]).hex()},
            "faults": recs, "tasks": tasks, "schedule": sched}


_USB = None


def _unions_selected_by():
    """selector field type -> union types it selects (from the struct layouts)"""
    global _USB
    if _USB is None:
        L = layout()
        m = {}
        for n, t in L.types.items():
            if t.get("kind") == "struct" and t.get("selectors"):
                ftypes = {f["name"]: f["type"] for f in t["fields"]}
                for ufield, sfield in t["selectors"].items():
                    if isinstance(ftypes.get(sfield), str) and isinstance(ftypes.get(ufield), str):
                        m.setdefault(ftypes[sfield], set()).add(ftypes[ufield])
        _USB = m
    return _USB


def justified_value_error(t):
    """an escaping ValueConstraintViolatedError must name an unknown command code or a selector without member"""
    e = t.exc
    L = layout()
    try:
        tn = real.tdesc(e.constraint.tpm_type)
        v = None if e.value is None else int(e.value)
    except Exception as x:
        return False, "error object unusable: %r" % x
    if tn == "TPM_CC" and v is None:
        # "unknown" literally: the preceding command ended before its command code was decoded
        last_cmd = max((k for k, it in enumerate(t.items) if it[0] == "S" and it[1] == "" and it[2] == "Command"), default=None)
        if last_cmd is None:
            return False, "no command precedes the response"
        seen = any(it[0] == "P" and it[1] == ".commandCode" for it in t.items[last_cmd:])
        return (not seen), "the command code of the preceding command was decoded"
    if tn == "TPM_CC":
        return (v not in L.commands), "command code 0x%x is in the command table" % v
    if tn in L.types and L.types[tn]["kind"] == "union":
        return (L.union_select(tn, v) is None), "selector %s selects a member of %s" % (v, tn)
    # selector type named instead of the union: accept if a union that is *selected by a field of this type* has no member for v
    if tn in L.types and L.types[tn]["kind"] == "prim" and not L.valid(tn, v):
        for un in _unions_selected_by().get(tn, ()):
            if L.union_select(un, v) is None:
                return True, ""
    return False, "neither an unknown command code nor a selector without member (type %s value %s)" % (tn, v)


def check(case):
    res = Result()
    w = common.run_world(case, res)
    t = w.tasks["main"]
    s = t.spec
    data = bytes.fromhex(s["data"])
    common.count_faults(res, case)
    fam = case["input"].get("family", "?")
    res.count("family:" + fam)
    label = "%s [%s] %s" % (case["input"]["label"], fam, case["faults"])
    kind = oracle.real_kind(t)
    res.count("escaped:" + kind)
    nwarn = sum(1 for it in t.items if it[0] == "W")
    res.count("warnings", nwarn)
    for it in t.items:
        if it[0] == "W":
            res.count("warning:" + it[1])
    escaped = None
    if t.exc_sum is not None:
        if t.exc_sum[0] == "StepCapExceeded":
            res.v("C08.a", "C08.a:step-cap", "%s: more than %d events - does not terminate" % (label, t.exc_sum[1]))
            return res
        if kind == "value":
            ok, why = justified_value_error(t)
            if not ok:
                res.v("C08.a", "C08.a:unjustified-value-error", "%s: warn mode raised %r: %s" % (label, t.exc_sum, why))
            else:
                res.count("justified-value-error")
            escaped = "value"
        else:
            res.v("C08.a", "C08.a:%s@%s" % (t.exc_sum[0], t.site),
                  "%s: warn mode aborted with %s: %s (raised in %s) after %d events / %d warnings" % (
                      label, t.exc_sum[0], str(t.exc)[:300], t.site, len(t.items), nwarn))
            return res
    # (a') the two problems that make the layout unknowable are never delivered as a warning: a warning whose error is
    # about a *union* (its selector selects no member) means decoding went on although it cannot know what follows
    L = layout()
    for n_, it in enumerate(t.items):
        if it[0] == "W" and it[1] == "ValueConstraintViolatedError" and len(it) > 3 and isinstance(it[3], str) and \
                L.types.get(it[3], {}).get("kind") == "union":
            res.v("C08.a", "C08.a:unknowable-layout-as-warning", "%s: event %d is a warning that the selector of %s at %s selects no member - "
                  "this must raise, the layout behind it is unknowable (decoding went on for %d more events)" % (label, n_, it[3], it[2], len(t.items) - n_ - 1))
            break
    # (b) tiling
    ok, msg, st = tiling.check(t.items, data, t.events, escaped)
    res.count("tiling:skips", st["skips"])
    res.count("tiling:max-candidates:%d" % min(st["candidates_max"], 4))
    if not ok:
        first_w = next((it[1] for it in t.items if it[0] == "W"), "none")
        res.v("C08.b", "C08.b:tiling:%s:%s" % (fam, first_w), "%s: %s" % (label, msg))
    # (b') a stream ends silently at a message boundary (also one reached by skipping a reported tail): a message root that
    # is announced when no byte is left, followed by "input depleted", is a problem that does not exist
    if s["type"] == model.STREAM and len(t.items) >= 2 and t.items[-1][0] == "W" and t.items[-1][1] == "InputStreamBytesDepletedError" \
            and t.items[-2][0] == "S" and t.items[-2][1] == "" and ok and st.get("last_root_at_end"):
        res.v("C08.b", "C08.b:message-without-bytes:%s" % fam, "%s: the input is used up at a message boundary, yet the root of another %s is announced and "
              "reported as depleted (events %d, %d)" % (label, t.items[-2][2], len(t.items) - 2, len(t.items) - 1))
    # (c) value-only faults: lenient reference walk
    if case["faults"] and all(r["kind"] == "value" and r["cls"] == "leaf" for r in case["faults"]):
        o = model.decode(s["type"], data, cc=s.get("cc"), enc=s.get("enc"), lenient=True)
        if o.ok and not o.unknowable and not o.unspecified and o.notes:
            exp = []
            notes = {n[0]: n for n in o.notes}
            for k, it in enumerate(o.items):
                exp.append(real.model_item(it))
                if k in notes:
                    exp.append(("W", "ValueConstraintViolatedError", notes[k][1], notes[k][2], notes[k][3]))
            if t.items != exp:
                res.v("C08.c", "C08.c:lenient-walk", "%s: %s" % (label, common.show_diff(t.items, exp)))
            res.count("value-only-compared")
    # probe (not verdict): did the message after the faulty one decode as in the fault-free run?
    orig = case["input"].get("orig")
    if s["type"] == model.STREAM and orig and case["faults"] and all("off" in r for r in case["faults"]):
        o0 = model.decode(model.STREAM, bytes.fromhex(orig))
        if o0.ok and len(o0.msgs) >= 2:
            hit = max((k for k, m in enumerate(o0.msgs) if m["start"] <= max(r["off"] for r in case["faults"])), default=0)
            pos = "first" if hit == 0 else "last" if hit == len(o0.msgs) - 1 else "middle"
            res.count("stream-fault-in:%s-message" % pos)
            if hit < len(o0.msgs) - 1 and len(bytes.fromhex(orig)) == len(data):
                tail = [real.model_item(x) for x in o0.items[o0.msgs[hit + 1]["item_lo"]:]]
                got = [it for it in t.items if it[0] != "W"]
                res.count("resynchronised-after-fault" if (tail and got[-len(tail):] == tail) else "not-resynchronised-after-fault")
    if nwarn or escaped or case["faults"]:
        res.nontrivial(s["type"], s.get("cc"), s.get("enc"), s["data"])
    return res


def shrink(case):
    yield from common.shrink_faults(case, ("main",))
    yield from common.shrink_tasks(case, {"main"})
    yield from common.shrink_bytes_tail(case)
    yield from common.shrink_buffers(case, ("main",))

"""C03 - strict mode accepts an input only if every size field is exact.

Workload: a well-formed message, one size field (chosen over all size-field kinds and nesting depths)
perturbed by -k/+k/0/max/random; a quota of double faults; synthetic nested layouts.
Oracle: the reference model decodes the *perturbed* bytes (a perturbed size may re-parse
consistently); accept <=> RM accepts; class, details and emitted events must match one admissible
report (relaxations 1, 2, 5 of DESIGN.md 4.2).
"""
from .. import faults as F
from .. import model, oracle
from ..runner import HarnessError, Result
from . import common

ID = "C03"
LEVEL = "fault_enumeration"
RULE = ("each run: a generated well-formed input (sweep over root types / command codes first), then one size "
        "field of it (all size-field kinds x nesting depths) set to old-k/old+k/0/max/random (10% of runs: two size "
        "fields); non-trivial = the strict decode of the perturbed bytes was compared (class, details, events) with "
        "the reference outcome; distinct = distinct (type, cc, perturbed bytes)")
REAL = common.REAL_DECODER
ASSUMPTIONS = ["reference model + pinned layout snapshot define region accounting (DESIGN.md 4.2)",
               "where the statement leaves a choice (several regions crossed at once, input ending inside the skip, "
               "trailing structure events) every admissible report is accepted"]
TIERS = {"quick": {"runs": 56000, "budget": 150}, "thorough": {"runs": 900000, "budget": 780}}
DOMAIN = oracle.SIZE_KINDS


def enumerate_all(tier, rng):
    return tier == "thorough" and rng.random() < 0.5 or rng.random() < 0.01


def make_case(i, rng, tier):
    from .. import synth
    if rng.random() < 0.15:
        inp = synth.gen_input(rng)
    else:
        inp = common.gen_input(rng, common.target_for(i, rng), huge=True)
    o = model.decode(inp["root"], inp["data"], cc=inp["cc"], enc=inp["enc"])
    if not o.ok:
        raise HarnessError("generator produced a malformed input: %s %s" % (inp["label"], o.problem))
    if not o.sizefields:
        return None
    if enumerate_all(tier, rng) and len(o.sizefields) <= 40 and len(inp["data"]) <= 1500:
        vs = []
        for idx, _r in o.sizefields:
            for val in F.size_variants(o, idx, rng):
                f = F.fault_size(inp["data"], o, rng, idx=idx, value=val)
                if f:
                    vs.append((f[0], [f[1]]))
        if vs:
            return common.with_variants(common.mk_case(rng, inp, inp["data"], []), vs[:400])
    data, recs = inp["data"], []
    if rng.random() < 0.08:
        # cooperating faults: one field overruns two, three or more nested regions at once; a fault inside an anticipated one
        fc = common.nested_chain_fault(rng, inp, o, p_append=0.2) if rng.random() < 0.7 else None
        if fc is None:
            f2 = F.fault_nested_pair(data, o, rng)
            fc = (inp, f2[0], f2[1]) if f2 else None
        if fc:
            return common.mk_case(rng, fc[0], fc[1], fc[2])
    if rng.random() < 0.06:
        fc = common.uniform_assumption_fault(rng, inp, o)
        if fc:
            return common.mk_case(rng, fc[0], fc[1], fc[2])
    n = 2 if rng.random() < 0.1 else 1
    for _ in range(n):
        r = F.fault_size(data, o, rng)
        if r is None:
            continue
        data, rec = r
        recs.append(rec)
    if not recs:
        return None
    return common.mk_case(rng, inp, data, recs)


def check_one(case):
    res = Result()
    w = common.run_world(case, res)
    t, data, o = common.main_ref(case, w)
    if o.unspecified:
        res.count("skipped:unspecified")
        return res
    m = oracle.match_strict(t, o, data)
    common.count_faults(res, case, m.expected[0])
    res.count("rm:" + "|".join(m.expected))
    res.count("real:" + m.kind)
    for r in m.relax:
        res.count("relaxation:" + r)
    res.count("max_region_depth:%d" % o.max_depth)
    in_domain = any(k in DOMAIN for k in m.expected) or m.kind in DOMAIN
    if not in_domain:
        res.count("out-of-domain:" + "|".join(m.expected))
        if m.expected == ("ok",) and m.kind == "ok":
            res.count("reparsed-consistently")
            res.nontrivial(t.spec["type"], t.spec.get("cc"), t.spec["data"])
        return res
    label = case["input"]["label"]
    exp_s = "|".join(m.expected)
    fk = "+".join(sorted(set("%s/%s" % (r.get("region"), r.get("delta")) for r in case["faults"])))
    if m.kind.startswith("internal:"):
        res.count("cross:internal-error")      # C06's business, not C03's
    elif m.kind == "ok" and m.expected != ("ok",):
        res.v("C03.a", "C03.a:accepted:%s:%s" % (exp_s, fk),
              "%s with %s: strict decode accepted, reference expects %s" % (label, case["faults"], o.problem))
    elif not m.class_ok:
        res.v("C03.b", "C03.b:%s-instead-of-%s:%s" % (m.kind, exp_s, fk),
              "%s with %s: raised %r, reference expects one of %s" % (label, case["faults"], t.exc_sum, o.problem))
    elif not m.details_ok:
        res.v("C03.c", "C03.c:%s:%s" % (m.kind, fk),
              "%s with %s: raised %r, admissible reports %s" % (label, case["faults"], t.exc_sum, o.problem))
    if m.class_ok or m.kind == "ok":
        pass
    if not m.events_ok and not m.kind.startswith("internal:") and (m.class_ok):
        res.v("C03.d", "C03.d:%s:%s" % (m.kind, fk), "%s with %s: %s" % (label, case["faults"], m.events_msg))
    res.nontrivial(t.spec["type"], t.spec.get("cc"), t.spec["data"])
    return res


def check(case):
    if "variants" in case:
        return common.check_variants(case, check_one)
    return check_one(case)


def shrink(case):
    if "variants" in case:
        yield from common.shrink_variants(case)
        return
    yield from common.shrink_tasks(case, {"main"})
    # try the single faults alone, on the original bytes
    if len(case.get("faults", [])) > 1:
        orig = bytes.fromhex(case["input"]["orig"])
        cur = bytes.fromhex(next(t for t in case["tasks"] if t["id"] == "main")["data"])
        for r in case["faults"]:
            if "new" in r and len(orig) == len(cur):
                from ..layout import layout
                size = layout().types[r["type"]]["size"]
                b = bytearray(orig)
                b[r["off"]:r["off"] + size] = cur[r["off"]:r["off"] + size]
                c = dict(case)
                c["faults"] = [r]
                c["tasks"] = [dict(x) for x in case["tasks"]]
                for x in c["tasks"]:
                    if x["id"] == "main":
                        x["data"] = bytes(b).hex()
                yield c
    yield from common.shrink_buffers(case, ("main",))

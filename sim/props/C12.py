"""C12 - decoding is a pure function of its arguments.

This is the property the scheduler exists for.  2-4 decode tasks per run over different messages,
biased to encrypted parameter areas of *different* commands (command and response side), under every
scheduling policy including pre-emption inside pulls, with histories A,B,A / A,A / A,B,C,A, bystanders
cancelled half-way, stream decodes and events-to-object conversions in between.
"""
from .. import gen, model, real
from ..layout import ATTR_DECRYPT, ATTR_ENCRYPT, layout
from ..runner import HarnessError, Result
from . import common

ID = "C12"
LEVEL = "exploration"
RULE = ("each run: 2-4 generated messages (70% with encrypted parameter areas of different commands), each decoded "
        "twice or more as separate tasks plus a stream decode of their concatenation, stepped by a seeded schedule "
        "(sequential A,B,A / round robin / random / bursty / pre-emption inside pulls, bystanders cancelled); "
        "non-trivial = repeated decodes of the same arguments were compared with == (events, objects, declared type "
        "identity) across other decodes in between; 0-3 bystanders per run ask for parameter encryption on arbitrary "
        "commands; 4% of the runs re-decode one of 6 long-lived probe messages first decoded when the worker process "
        "started (hundreds of runs earlier) and compare with the result kept since then; 1.5% decode the same arguments in "
        "a fresh interpreter that has decoded nothing else and compare the comparable forms; distinct = distinct "
        "(message set, schedule) digests")
REAL = common.REAL_DECODER + ["tpmstream.spec.commands.params_common (cached type synthesis)", "tpmstream.common.object"]
ASSUMPTIONS = ["all tasks live in one interpreter: module globals are shared simply because they are; generators are the pre-emption points"]
TIERS = {"quick": {"runs": 10000, "budget": 150}, "thorough": {"runs": 300000, "budget": 780}}


def enc_message(rng, g, side=None):
    """a message whose parameter area is encrypted (command or response side)"""
    L = layout()
    side = side or rng.choice(("command", "response"))
    if side == "command":
        ccs = [cc for cc in sorted(L.commands) if L.first_param_is_tpm2b(L.commands[cc]["cmd_params"])]
        cc = rng.choice(ccs)
        tree, _ = g.command(cc=cc, n_sessions=rng.randint(1, 2), enc=True, resp_enc=False)
        data, _ = gen.serialise(tree)
        return dict(root="Command", data=data, cc=None, enc=None, label="command:%s:enc" % L.commands[cc]["name"])
    ccs = [cc for cc in sorted(L.commands) if L.first_param_is_tpm2b(L.commands[cc]["rsp_params"])]
    cc = rng.choice(ccs)
    tree = g.response(cc, enc=True, fail=False, n_sessions=rng.randint(1, 2))
    data, _ = gen.serialise(tree)
    return dict(root="Response", data=data, cc=cc, enc=True, label="response:%s:enc" % L.commands[cc]["name"])


def container_history(rng, g):
    """A, B, A over capture containers: the front-ends (pcapng link-layer parsers, text scanners) are part of "decoding"
    and must not remember anything from one capture to the next either"""
    from .. import medium
    blobs = []
    for j in range(2):
        trees = []
        for _ in range(rng.randint(1, 2)):
            trees += list(g.exchange())
        data, _, bounds = gen.serialise_stream(trees)
        msgs = [data[a:b] for a, b in zip(bounds, bounds[1:])]
        kind = rng.choice(("pcapng-ip", "pcapng-eth", "pcapng-mixed", "hex", "swtpm")) if j else rng.choice(("pcapng-ip", "pcapng-ip", "pcapng-eth", "hex"))
        if kind.startswith("pcapng"):
            blob, _m = medium.write_pcapng(msgs, rng, ether=(kind == "pcapng-eth"), mixed=(kind == "pcapng-mixed"))
            front = "pcapng"
        elif kind == "hex":
            blob, front = medium.write_hex(data, rng), "hex"
        else:
            blob, front = medium.write_swtpm_log(data, bounds, rng), "swtpm"
        blobs.append((kind, front, blob))
    order = rng.choice(([0, 1, 0], [0, 1, 0], [1, 0, 1], [0, 1, 1, 0]))
    tasks = []
    for pos, r in enumerate(order):
        kind, front, blob = blobs[r]
        tasks.append(dict(id="d%d_%d" % (pos, r), front=front, type=model.STREAM, data=blob.hex(), cc=None, enc=None, strict=True,
                          source=rng.choice(("bytes", "gen", "list"))))
    return tasks, "containers:%s" % "+".join(b[0] for b in blobs)


ATTR_HOLDERS = ("TPMT_PUBLIC", "TPM2B_PUBLIC", "TPMS_NV_PUBLIC", "TPM2B_NV_PUBLIC", "TPMS_ALG_PROPERTY", "TPML_ALG_PROPERTY", "TPMS_CREATION_DATA", "TPML_CCA")


def attribute_twins(rng, g):
    """two attribute words of *different* types that hold the same number, one of them the session attributes that decide
    whether a parameter area is encrypted: an exchange whose only session has attributes v (decrypt and / or encrypt set),
    and a structure with an object / NV / algorithm / command attribute word equal to v that is pretty-printed (printing
    looks at every named field of the word).  Decoded in one process, either order; each is compared with an interpreter
    that has decoded nothing else.  -> tasks, label or None"""
    L = layout()
    ccs = [cc for cc in sorted(L.commands) if L.first_param_is_tpm2b(L.commands[cc]["cmd_params"]) and L.first_param_is_tpm2b(L.commands[cc]["rsp_params"])]
    v = rng.choice((0x20, 0x40, 0x60, 0x60, 0x61, 0xE0, 0xA0, 0x24, 0x44, 0x64))
    cmd, rsp = g.exchange(cc=rng.choice(ccs), n_sessions=1, enc=bool(v & ATTR_DECRYPT), resp_enc=bool(v & ATTR_ENCRYPT))
    sdata, items, _ = gen.serialise_stream([cmd, rsp])
    at = next((it for it in items if it[0] == "P" and it[1].endswith(".sessionAttributes")), None)
    if at is None:
        return None
    b = bytearray(sdata)
    b[at[4]] = v
    for _ in range(10):
        inp = common.gen_input(rng, ("struct", rng.choice(ATTR_HOLDERS)))
        words = [it for it in inp["items"] if it[0] == "P" and it[2].startswith("TPMA_") and it[2] != "TPMA_SESSION" and L.valid(it[2], v)]
        if words:
            it = rng.choice(words)
            d = bytearray(inp["data"])
            d[it[4]:it[4] + it[5]] = v.to_bytes(it[5], "big")
            o = model.decode(inp["root"], bytes(d))
            if not o.ok:
                continue
            holder = dict(common.spec("d0_0", inp["root"], bytes(d), None, None, strict=True, source="bytes"), consumer="pretty")
            exch = common.spec("d1_1", model.STREAM, bytes(b), None, None, strict=True, source=rng.choice(("bytes", "counting")))
            tasks = [holder, exch] if rng.random() < 0.6 else [exch, holder]
            return tasks, "twins:%s=0x%02x+%s" % (it[2], v, L.commands[cmd[2]]["name"])
    return None


def make_case(i, rng, tier):
    k = gen.Knobs(rng)
    g = gen.Gen(rng, k)
    if rng.random() < 0.012:
        tw = attribute_twins(rng, g)
        if tw:
            return {"input": {"label": tw[1], "n": 2, "history": "twins", "probe": None, "pristine": "each"},
                    "tasks": tw[0], "schedule": {"policy": "sequential", "order": [t["id"] for t in tw[0]]}}
    if rng.random() < 0.008:
        # the same bytes under two caller-chosen roots that print identically and are different paths (an index as part of
        # the node, or as text inside the node name - Path.from_string), each compared with an interpreter of its own
        inp = common.gen_input(rng, common.target_for(10 ** 9, rng), k)
        r = rng.choice([x for x in common.ROOTS if "[" in x])
        a = common.spec("d0_0", inp["root"], inp["data"], inp["cc"], inp["enc"], strict=True, source="bytes")
        b = common.spec("d1_1", inp["root"], inp["data"], inp["cc"], inp["enc"], strict=True, source="bytes")
        a["root_path"], b["root_path"] = (r, "~" + r) if rng.random() < 0.5 else ("~" + r, r)
        return {"input": {"label": "root-twins:%s:%s" % (r, inp["label"]), "n": 2, "history": "root-twins", "probe": None, "pristine": "each"},
                "tasks": [a, b], "schedule": {"policy": "sequential", "order": ["d0_0", "d1_1"]}}
    if rng.random() < 0.12:
        tasks, label = container_history(rng, g)
        return {"input": {"label": label, "n": 2, "history": "containers", "probe": None},
                "tasks": tasks, "schedule": {"policy": "sequential", "order": [t["id"] for t in tasks]}}
    n = rng.randint(2, 4)
    msgs = []
    for j in range(n):
        if rng.random() < 0.2:
            # a malformed message, decoded in warn mode: "the same input with the same arguments" includes these arguments
            inp, data, _recs, _fam = common.gen_malformed(rng, 10 ** 9, p_wellformed=0.0, allow_random=False)
            msgs.append(dict(root=inp["root"], data=data, cc=inp["cc"], enc=inp["enc"], label="warn:" + inp["label"], strict=False))
        elif rng.random() < 0.7:
            msgs.append(enc_message(rng, g))
        else:
            inp = common.gen_input(rng, common.target_for(10 ** 9, rng), k)
            msgs.append(dict(root=inp["root"], data=inp["data"], cc=inp["cc"], enc=inp["enc"], label=inp["label"]))
    tasks = []
    hist = rng.choice(("ABA", "AA", "ABCA", "interleaved"))
    reps = {"ABA": [0, 1, 0], "AA": [0, 0], "ABCA": [0, 1, 2, 0]}.get(hist)
    if reps is None:
        reps = [j % n for j in range(rng.randint(n + 1, 2 * n + 1))]
        rng.shuffle(reps)
    reps = [r % n for r in reps]
    for pos, r in enumerate(reps):
        m = msgs[r]
        tasks.append(common.spec("d%d_%d" % (pos, r), m["root"], m["data"], m["cc"], m["enc"], strict=m.get("strict", True),
                                 source=rng.choice(("bytes", "counting", "counting", "gen"))))
    # a stream decode of an exchange built from an encrypted command / response pair, in between
    if rng.random() < 0.5:
        cmd, rsp = g.exchange()
        sdata, _, _ = gen.serialise_stream([cmd, rsp])
        tasks.append(common.spec("stream", model.STREAM, sdata, None, None, strict=True, source="counting"))
    # bystanders that ask for parameter encryption on *any* command (also those without a size-prefixed first
    # parameter - their own outcome is not judged here): every parameter layout of the tables gets its turn at the
    # type synthesis, which is what a bounded / keyed cache needs in order to forget something
    tasks += common.enc_sweep_specs(rng, g, rng.choice((0, 1, 1, 2, 3)))
    probe = rng.randrange(N_PROBES) if rng.random() < 0.04 else None
    pristine = rng.random() < 0.015
    thr = rng.randrange(1 << 30) if rng.random() < 0.006 else None
    policy = {"ABA": "sequential", "AA": "sequential", "ABCA": "sequential"}.get(hist) if rng.random() < 0.5 else None
    specs, sched = common.perturb(rng, tasks, p_by=0.4)
    if policy == "sequential":
        sched = {"policy": "sequential", "order": [t["id"] for t in specs]}
    return {"input": {"label": "%s:%s" % (hist, "+".join(m["label"] for m in msgs)), "n": n, "history": hist, "probe": probe, "pristine": pristine, "threads": thr},
            "tasks": specs, "schedule": sched}


# ---- long-lived probes: "no matter which other inputs were decoded before" over the whole life of the process ----------
N_PROBES = 6
_PROBES = None


def probes():
    """a fixed set of messages with encrypted parameter areas, decoded once when this process first needs them; the
    results stay alive and are compared with fresh decodes of the same arguments many runs later"""
    global _PROBES
    if _PROBES is None:
        import random
        rng = random.Random(1212)
        g = gen.Gen(rng, gen.Knobs())
        out = []
        for j in range(N_PROBES):
            if j < 4:
                m = enc_message(rng, g, side=("command", "response")[j % 2])
                sp = common.spec("probe%d" % j, m["root"], m["data"], m["cc"], m["enc"], strict=True)
            else:
                cmd, rsp = g.exchange(n_sessions=1, enc=True, resp_enc=True)
                sdata, _, _ = gen.serialise_stream([cmd, rsp])
                sp = common.spec("probe%d" % j, model.STREAM, sdata, None, None, strict=True)
            out.append((sp, solo(sp)))
        _PROBES = out
    return _PROBES


def check_probe(res, k, label):
    from tpmstream.common.object import events_to_obj
    sp, first = probes()[k]
    if first.exc_sum is not None:
        res.count("cross:probe-decode-raised")
        return
    again = solo(sp)
    res.count("hist:probe-rechecked")
    what = None
    if again.outcome() != first.outcome() or again.items != first.items:
        what = "content"
    elif again.events != first.events:
        what = "events"
    elif not (again.value == first.value):
        what = "object"
    elif sp["type"] != model.STREAM and hasattr(first.value, "__dataclass_fields__"):
        try:
            if not (events_to_obj(first.events, command_code=first._cc(sp.get("cc"))) == first.value):
                what = "conversion"
        except Exception:
            res.count("cross:events_to_obj-raised")
    if what:
        res.v("C12.e", "C12.e:probe-drift:%s" % what,
              "%s: probe %d (%s %s...) was decoded when this process started; decoding the same arguments again now gives "
              "%s that do not compare equal to the first result%s" % (
                  label, k, sp["type"], sp["data"][:24], {"content": "events/outcome", "events": "events (declared type objects)",
                                                          "object": "an object", "conversion": "events whose conversion to an object does"}[what],
                  "" if what == "content" else " although the comparable forms are equal"))


def solo(spec):
    """fresh solo decode of the same arguments (reference for 'same input, same arguments')"""
    from ..world import Task
    s = dict(spec, id="solo", source="bytes")
    s.pop("cancel_at", None)
    return Task(s).run()


def check(case):
    from tpmstream.common.object import events_to_obj
    res = Result()
    dec = [t for t in case["tasks"] if t["id"].startswith("d")]
    groups = {}
    for t in dec:
        groups.setdefault(t["id"].split("_")[1], []).append(t["id"])
    # solo reference decodes at the *start* of the run ...
    first = {g: solo(next(t for t in dec if t["id"] == ids[0])) for g, ids in sorted(groups.items())}
    w = common.run_world(case, res)
    # ... and again at the *end*
    last = {g: solo(next(t for t in dec if t["id"] == ids[0])) for g, ids in sorted(groups.items())}
    label = case["input"]["label"]
    res.count("history:" + case["input"].get("history", "?"))
    compared = 0
    for g, ids in sorted(groups.items()):
        refs = [("start", first[g]), ("end", last[g])]
        if first[g].exc_sum is not None:
            res.count("cross:reference-decode-raised")
            continue
        for tid in ids:
            t = w.tasks[tid]
            if t.cancelled:
                continue
            for when, r in refs:
                compared += 1
                if t.outcome() != r.outcome():
                    res.v("C12.a", "C12.a:outcome", "%s: task %s outcome %r, solo decode at %s of the run: %r" % (label, tid, t.outcome(), when, r.outcome()))
                elif t.events != r.events:
                    same = t.items == r.items
                    n = next((k for k, (a, b) in enumerate(zip(t.events, r.events)) if a != b), None)
                    res.v("C12.a", "C12.a:events:%s" % ("type-identity" if same else "content"),
                          "%s: events of task %s != events of the solo decode of the same arguments at the %s of the run (event %s: %r)%s" % (
                              label, tid, when, n, t.items[n] if n is not None and n < len(t.items) else None,
                              "; comparable forms are equal, the declared type objects differ" if same else ""))
                elif not (t.value == r.value):
                    res.v("C12.a", "C12.a:object", "%s: object of task %s != object of the solo decode at the %s of the run" % (label, tid, when))
                else:
                    continue
                break
            # (c) events -> object conversion after other decodes ran
            if t.exc_sum is None and t.events and hasattr(t.value, "__dataclass_fields__"):
                try:
                    ob = events_to_obj(t.events, command_code=t._cc(t.spec.get("cc")))
                    if not (ob == t.value):
                        from .C11 import _where
                        if _where(t.value, ob) == "type":
                            res.v("C12.c", "C12.c:type-identity", "%s: events_to_obj(events of %s) != decoder object: %s" % (label, tid, _where(t.value, ob, True)))
                        else:
                            res.count("cross:none-vs-empty (C11)")
                except Exception as e:
                    res.count("cross:events_to_obj-raised")
        # (d) the declared type of .parameters is the same object in every decode of the same message
        ptypes = []
        for tid in ids:
            t = w.tasks[tid]
            if t.cancelled or t.exc_sum is not None:
                continue
            ptypes.append((tid, [e.type for e, it in zip(t.events, t.items) if it[0] == "S" and it[1] == ".parameters"]))
        for (ta, a), (tb, b) in zip(ptypes, ptypes[1:]):
            if len(a) == len(b) and any(x is not y for x, y in zip(a, b)):
                x, y = next((x, y) for x, y in zip(a, b) if x is not y)
                res.v("C12.d", "C12.d:parameters-type", "%s: declared type of .parameters differs between %s and %s (%s: object %d vs %d)" % (
                    label, ta, tb, x.__name__, id(x) % 100000, id(y) % 100000))
                break
    # (b) a message decoded alone == the corresponding slice of a stream decode
    st = w.tasks.get("stream")
    if st is not None and st.exc_sum is None:
        from ..world import Task
        o = model.decode(model.STREAM, bytes.fromhex(st.spec["data"]))
        if o.ok:
            k = 0
            for m in o.msgs:
                part = bytes.fromhex(st.spec["data"])[m["start"]:m["end"]]
                r = Task(dict(id="solo", type="Command" if m["kind"] == "command" else "Response", data=part.hex(),
                              cc=m["cc"] if m["kind"] == "response" else None,
                              enc=(True if m["enc"] else None) if m["kind"] == "response" else None)).run()
                sl = st.events[m["item_lo"]:m["item_hi"]]
                if r.exc_sum is None and sl != r.events:
                    same = st.items[m["item_lo"]:m["item_hi"]] == r.items
                    res.v("C12.b", "C12.b:%s" % ("type-identity" if same else "content"),
                          "%s: %s decoded alone != its slice of the stream decode%s" % (label, m["kind"], " (declared type objects differ)" if same else ""))
                    break
                compared += 1
    if case["input"].get("pristine"):
        # the same arguments decoded by an interpreter that has decoded nothing else
        from .. import pristine
        firsts = [next(t for t in dec if t["id"] == ids[0]) for g, ids in sorted(groups.items())]
        firsts = [t for t in firsts if not w.tasks[t["id"]].cancelled]
        opt = (case.get("_run") or {}).get("index", 0) % 2 == 1      # every other time an interpreter started with -O
        if case["input"]["pristine"] == "each":
            fresh = [pristine.run_fresh([f_], optimize=opt)[0] for f_ in firsts]       # an interpreter of its own for every one
        else:
            fresh = pristine.run_fresh(firsts, optimize=opt)
        res.count("compared-with-fresh-interpreter:-O" if opt else "compared-with-fresh-interpreter:plain")
        res.count("compared-with-fresh-interpreter", len(firsts))
        for spec_, fr in zip(firsts, fresh):
            t = w.tasks[spec_["id"]]
            mine = pristine.summarise(t)
            if mine != fr:
                what = "outcome" if mine[1] != fr[1] else "events"
                res.v("C12.f", "C12.f:differs-from-fresh-process:%s" % what,
                      "%s: task %s gives %s here, but %s in an interpreter that has decoded nothing before: %s" % (
                          label, t.id, mine[1], fr[1], common.show_diff(mine[0], fr[0])))
                break
    # C12.g: the synthesized layout handed out for an encrypted parameter area, used as the type of a decode of its own
    # (the area's bytes again, with and without the encryption flag): it must be that very type again, field by field
    if int(__import__("hashlib").sha256(repr(sorted(t_.get("data", "")[:40] for t_ in dec)).encode()).hexdigest()[:4], 16) % 8 == 0:
        from tpmstream.io.binary import Binary
        for t_ in dec:
            t = w.tasks[t_["id"]]
            if t.cancelled or t.exc_sum is not None or t.spec["type"] not in ("Command", "Response") or t.spec.get("root_path"):
                continue
            if not t.spec.get("strict", True) or any(it[0] == "W" for it in t.items):
                continue        # (a warn-mode decode of a malformed message: its area does not decode strictly, that is no news)
            k_ = next((n_ for n_, it in enumerate(t.items) if it[0] == "S" and it[1] == ".parameters" and it[3] and it[3][0][1] == "TPM2B_ENCRYPTED_PARAM"), None)
            if k_ is None:
                continue
            T_ = t.events[k_].type
            sub = [(e_, it) for e_, it in zip(t.events[k_:], t.items[k_:]) if it[1] == ".parameters" or it[1].startswith(".parameters.")]
            area = b"".join(e_.value.to_bytes() for e_, it in sub if it[0] == "P")
            for flag in (True, None):
                try:
                    evs = list(Binary.marshal(tpm_type=T_, buffer=area, parameter_encryption=flag, abort_on_error=True))
                except Exception as x_:  # noqa
                    res.v("C12.g", "C12.g:area-decode-raised", "%s: the parameter area of %s decoded on its own under the type the library handed out for it (%s, parameter_encryption=%r) raised %s: %s" % (
                        label, t.id, T_.__name__, flag, type(x_).__name__, str(x_)[:160]))
                    break
                res.count("synthesized-type-used-as-root-type")
                bad_ = next((n_ for n_, (a_, (b_, _it)) in enumerate(zip(evs, sub)) if a_.type is not b_.type or (a_.value is not ... and a_.value != b_.value)), None)
                if len(evs) != len(sub) or bad_ is not None:
                    res.v("C12.g", "C12.g:another-type", "%s: the parameter area of %s decoded on its own under the type the library handed out for it (%s, parameter_encryption=%r) "
                          "gives %d events (the message decode: %d); event %s has another declared type object / value" % (label, t.id, T_.__name__, flag, len(evs), len(sub), bad_))
                    break
            break
    if case["input"].get("probe") is not None:
        check_probe(res, case["input"]["probe"], label)
    else:
        probes()        # make sure the probes exist from the first run of this process on
    if case["input"].get("threads") is not None:
        # the decodes of this run again, concurrently in OS threads of a fresh interpreter under a seeded line-level schedule
        tspecs = [dict(t_, id="%s" % t_["id"]) for t_ in dec if len(t_["data"]) < 3000][:5]
        if len(tspecs) >= 2:
            common.check_threads(res, "C12", tspecs, case["input"]["threads"], label=label)
    # types declared during the history (sim/dyntypes.py): every 25-th run or so, derived from the case so that a replay needs nothing else
    if int(__import__("hashlib").sha256(repr(sorted((t_["id"], t_.get("data", "")[:48]) for t_ in case["tasks"])).encode()).hexdigest()[:6], 16) % 25 == 0:
        from .. import dyntypes
        seed_ = int(__import__("hashlib").sha256(repr([t_.get("data", "")[:48] for t_ in case["tasks"]]).encode()).hexdigest()[6:12], 16)
        res.count("types-declared-during-the-history")
        for msg_ in dyntypes.run("C12", seed_):
            res.v("C12.D", "C12.D:declared-later", "a type declared during the history (template seed %d): %s" % (seed_, msg_))
            break
    res.count("comparisons", compared)
    if compared:
        res.nontrivial(sorted(t["data"] for t in dec), res.sched)
    return res


def shrink(case):
    keep = {t["id"] for t in case["tasks"] if t["id"].startswith("d") or t["id"] == "stream"}
    yield from common.shrink_tasks(case, keep)
    if any(t["id"] == "stream" for t in case["tasks"]):
        c = dict(case)
        c["tasks"] = [t for t in case["tasks"] if t["id"] != "stream"]
        yield c
    dec = [t for t in case["tasks"] if t["id"].startswith("d")]
    if len(dec) > 2:
        for drop in dec:
            c = dict(case)
            c["tasks"] = [t for t in case["tasks"] if t["id"] != drop["id"]]
            c["schedule"] = {"policy": "sequential", "order": [t["id"] for t in c["tasks"]]}
            yield c

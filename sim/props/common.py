"""Shared pieces of the per-property modules: traffic targets, perturbations, comparison helpers."""
import json

from .. import gen, model, real, synth, world  # noqa: F401 - synth installs its layouts at import: always, not when first used
from ..layout import layout

REAL_DECODER = ["tpmstream.io.binary.marshal (decoder, strict and warn mode)", "tpmstream.common.constraints",
                "tpmstream.common.error", "tpmstream.common.event", "tpmstream.spec.* (layout tables, typed integers)"]


def sweep_targets():
    """deterministic structural sweep: every root type, every command code in every framing"""
    L = layout()
    t = []
    for n in L.struct_names():
        t.append(("struct", n))
    for n in L.area_names():
        t.append(("struct", n))
    for cc in sorted(L.commands):
        t.append(("command", cc, 0, False))
        t.append(("command", cc, 2, False))
        t.append(("command", cc, 1, True))
        t.append(("response", cc, 0, False, False))
        t.append(("response", cc, 2, False, False))
        t.append(("response", cc, 1, True, False))
        t.append(("response", cc, 0, False, True))
        t.append(("stream", cc))
    return t


_SWEEP = None


def target_for(i, rng):
    global _SWEEP
    if _SWEEP is None:
        _SWEEP = sweep_targets()
    if i < len(_SWEEP):
        return _SWEEP[i]
    L = layout()
    r = rng.random()
    if r < 0.25:
        names = L.struct_names()
        return ("struct", rng.choice(names))
    if r < 0.30:
        return ("struct", rng.choice(L.area_names()))
    cc = rng.choice(sorted(L.commands))
    if r < 0.50:
        return ("command", cc, None, None)
    if r < 0.75:
        return ("response", cc, None, None, None)
    return ("stream", cc if rng.random() < 0.5 else None)


def L_valid_session(h):
    return layout().valid("TPMI_SH_AUTH_SESSION", h)


def gen_input(rng, target, knobs=None, huge=False):
    """-> dict(root, data(bytes), cc, enc, label, arms) - one well-formed input.  huge: allow the rare magnitudes of the
    knobs (a buffer of several / 32 k bytes, a list of hundreds of elements) - for properties whose runs decode the
    input only a few times"""
    k = knobs or gen.Knobs(rng)
    if huge == "many" and not k.many and rng.random() < 0.02:
        k.many = rng.choice((65, 80, 100, 255, 256, 300))       # long lists of primitives (C04: a fault late in the list)
    if huge == "mid" and k.huge_buf > 8192:
        k.huge_buf = 8192 if k.huge_buf == 32768 else 5000       # warn-mode runs over 30 k events cost seconds each
    if huge == "lite":
        k.huge_buf = rng.choice((1100, 2000, 3000)) if rng.random() < 0.012 else 0     # messages beyond 1 kB, cheap enough for many tasks
        k.many = 0
    g = gen.Gen(rng, k)
    g.allow_huge = bool(huge)
    kind = target[0]
    if kind == "struct":
        tree = g.node(target[1])
        data, items = gen.serialise(tree)
        return dict(root=target[1], data=data, cc=None, enc=None, label="struct:" + target[1], items=items,
                    arms=g.arms, knobs=k)
    if kind == "command":
        _, cc, ns, enc = target
        tree, resp_enc = g.command(cc=cc, n_sessions=ns, enc=enc)
        data, items = gen.serialise(tree)
        return dict(root="Command", data=data, cc=None, enc=None, items=items, arms=g.arms, knobs=k,
                    label="command:%s:s%s:e%d" % (layout().commands[cc]["name"], len(tree[4]) if tree[4] is not None else "-", tree[6]))
    if kind == "response":
        _, cc, ns, enc, fail = target
        tree = g.response(cc, enc=bool(enc) if enc is not None else (rng.random() < k.p_enc), fail=fail, n_sessions=ns)
        data, items = gen.serialise(tree)
        return dict(root="Response", data=data, cc=cc, enc=True if tree[7] else None, items=items, arms=g.arms,
                    knobs=k, label="response:%s:rc%s:e%d" % (layout().commands[cc]["name"], ("%x" % tree[2]) if tree[2] in (0, 0x101, 0x100, 0x9A2, 0x1C4, 0xB01, 0x922, 0x84) else "other", tree[7]))
    if kind == "stream" and target[1] is None and rng.random() < 0.04:
        sc = scenario_stream(rng)
        if sc:
            return sc
    if kind == "stream":
        n = rng.randint(1, 4)
        trees, metas = [], []
        coherent = target[1] is None and rng.random() < 0.1
        for j in range(n + (1 if coherent else 0)):
            cc = target[1] if (j == 0 and target[1] is not None) else None
            if coherent and j == 0:
                # the capture starts with StartAuthSession; the handle it returns is the session handle of later commands
                cmd, rsp = g.exchange(cc=0x176)
                if rsp[4] is not None:
                    g.session_handle = next((n_[2] for f_, n_ in rsp[4][2] if f_ == "sessionHandle" and n_[0] == "prim"), None)
                    if g.session_handle is not None and not L_valid_session(g.session_handle):
                        g.session_handle = None
            else:
                cmd, rsp = g.exchange(cc=cc)
            trees += [cmd, rsp]
            metas.append(dict(kind="command", cc=None, enc=None))
            metas.append(dict(kind="response", cc=cmd[2], enc=True if rsp[7] else None))
        if rng.random() < 0.15:
            trees.pop()
            metas.pop()
        data, items, bounds = gen.serialise_stream(trees)
        label = "stream:%d" % len(trees)
        if rng.random() < 0.04:
            # the capture starts with the device reporting its properties (small limits); items of the preamble come
            # from the reference decode
            ccmd, crsp = capability_exchange(rng)
            pre = ccmd + crsp
            data = pre + data
            bounds = [0, len(ccmd), len(pre)] + [b + len(pre) for b in bounds[1:]]
            metas = [dict(kind="command", cc=None, enc=None), dict(kind="response", cc=0x17A, enc=None)] + metas
            items = model.decode(model.STREAM, data).items
            label = "stream:cap+%d" % len(trees)
        return dict(root=model.STREAM, data=data, cc=None, enc=None, items=items, arms=g.arms, knobs=k,
                    bounds=bounds, metas=metas, label=label)
    raise ValueError(target)


def spec(tid, inp_or_root, data=None, cc=None, enc=None, **kw):
    """task spec from an input dict or explicit fields"""
    if isinstance(inp_or_root, dict):
        i = inp_or_root
        s = dict(id=tid, type=i["root"], data=bytes(i["data"]).hex(), cc=i["cc"], enc=i["enc"])
    else:
        s = dict(id=tid, type=inp_or_root, data=bytes(data).hex(), cc=cc, enc=enc)
    s.update(kw)
    return s


def bystanders(rng, n, knobs=None):
    """unrelated decode tasks that run alongside; some get cancelled half-way"""
    out = []
    for j in range(n):
        if rng.random() < 0.12:
            out.append(dict(id="by%d" % j, kind="api-noise", seed=rng.randrange(1 << 30), type="-", data="", cc=None, enc=None))
            continue
        t = target_for(10 ** 9, rng)
        inp = gen_input(rng, t, knobs)
        s = spec("by%d" % j, inp, strict=rng.random() < 0.7,
                 source=rng.choice(world.SOURCE_KINDS))
        if rng.random() < 0.3:
            s["cancel_at"] = rng.randint(0, 30)
        if rng.random() < 0.2:
            s["consumer"] = rng.choice(("pretty", "binary"))
        out.append(s)
    return out


ROOTS = ("capture.msg[3]", "x", "a.b.c", "m[0]", "trace[12].message", "log.parameters", "handles", "job.randomBytes.buffer", "rec.authorizationArea",
         "site.rack[4].host.vm[2].tpm.session[7].capture.file.record[123].frame.payload.message.body.tpm2.value")


def enc_sweep_specs(rng, g, n, prefix="sweep"):
    """bystander decodes that ask for parameter encryption on *any* command (also those without a size-prefixed first
    parameter - their own outcome is never judged): every parameter layout of the tables gets its turn at the type
    synthesis, which is what a bounded / keyed cache needs in order to forget something"""
    L = layout()
    out = []
    for j in range(n):
        cc = rng.choice(sorted(L.commands))
        if rng.random() < 0.04:
            # the common base class of all parameter areas is importable and decodable (to nothing) too
            out.append(spec("%s%d" % (prefix, j), "TPMS_PARAMS", b"", None, True, strict=True))
            continue
        if rng.random() < 0.5:
            tree = g.response(cc, enc=False, fail=False, n_sessions=1)
            data, _ = gen.serialise(tree)
            out.append(spec("%s%d" % (prefix, j), "Response", data, cc, True, strict=rng.random() < 0.5))
        else:
            tree, _ = g.command(cc=cc, n_sessions=1, enc=False, resp_enc=False)
            data, items = gen.serialise(tree)
            at = next(it for it in items if it[0] == "P" and it[1].endswith(".sessionAttributes"))
            b = bytearray(data)
            b[at[4]] |= 0x20          # decrypt attribute of the only session, in place
            out.append(spec("%s%d" % (prefix, j), "Command", bytes(b), None, None, strict=rng.random() < 0.5))
    return out


def capability_exchange(rng):
    """the device reports its properties (what tools ask first): GetCapability(TPM_PROPERTIES) answered with a list of tagged
    properties, every property id of the layout in turn, with *small* values (limits, sizes, counts of a constrained
    device).  Nothing a device reports may change how later messages of the capture are decoded."""
    L = layout()
    ids = [v for a, b in L.types["TPM_PT"]["valid"] for v in range(a, b + 1)]
    n = rng.randint(4, 24)
    start = rng.randrange(len(ids))
    chosen = [ids[(start + j) % len(ids)] for j in range(n)]
    cmd = b"\x80\x01" + (22).to_bytes(4, "big") + (0x17A).to_bytes(4, "big") + (6).to_bytes(4, "big") + chosen[0].to_bytes(4, "big") + n.to_bytes(4, "big")
    body = b"\x00" + (6).to_bytes(4, "big") + n.to_bytes(4, "big") + b"".join(
        pid.to_bytes(4, "big") + rng.choice((0, 1, 4, 10, 16, 24, 32, 64, rng.randint(0, 300))).to_bytes(4, "big") for pid in chosen)
    rsp = b"\x80\x01" + (10 + len(body)).to_bytes(4, "big") + b"\x00\x00\x00\x00" + body
    return cmd, rsp


_TINY = None


def tiny_stream(rng, n):
    """a capture of n exchanges of the shortest kind (a polling client, a boot log): many messages, few bytes each"""
    global _TINY
    if _TINY is None:
        import random
        r0 = random.Random(77)
        k = gen.Knobs()
        k.max_buf, k.max_list, k.p_sessions, k.p_fail, k.p_enc, k.p_absent = 2, 0, 0.0, 0.0, 0.0, 1.0
        ex = []
        for cc in sorted(layout().commands):
            g = gen.Gen(r0, k)
            cmd, rsp = g.exchange(cc=cc)
            b = gen.serialise(cmd)[0] + gen.serialise(rsp)[0]
            ex.append((len(b), cc, gen.serialise(cmd)[0], gen.serialise(rsp)[0]))
        _TINY = sorted(ex)[:12]
    data, bounds, metas = b"", [0], []
    for _ in range(n):
        _l, cc, c, r = rng.choice(_TINY)
        data += c
        bounds.append(len(data))
        data += r
        bounds.append(len(data))
        metas += [dict(kind="command", cc=None, enc=None), dict(kind="response", cc=cc, enc=None)]
    return dict(root=model.STREAM, data=data, cc=None, enc=None, items=None, arms=[], knobs=None, bounds=bounds, metas=metas,
                label="tiny-stream:%d" % n)


def fat_stream(rng, n_events):
    """a capture with at least n_events events, nearly all of them bytes of 1 kB buffers (hashing a file through the TPM)"""
    data, bounds, metas = b"", [0], []
    n = 0
    while n < n_events:
        k = rng.choice((1000, 1024, 1024, 777))
        c = b"\x80\x01\x00\x00\x00\x0c\x00\x00\x01\x7b" + k.to_bytes(2, "big")
        r = b"\x80\x01" + (12 + k).to_bytes(4, "big") + b"\x00\x00\x00\x00" + k.to_bytes(2, "big") + bytes(rng.randrange(256) for _ in range(16)) * (k // 16) + b"\x00" * (k % 16)
        for m, meta in ((c, dict(kind="command", cc=None, enc=None)), (r, dict(kind="response", cc=0x17B, enc=None))):
            data += m
            bounds.append(len(data))
            metas.append(meta)
        n += k + 14
    return dict(root=model.STREAM, data=data, cc=None, enc=None, items=None, arms=[], knobs=None, bounds=bounds, metas=metas,
                label="fat-stream:%d-events" % n)


def long_stream(rng, min_bytes, knobs=None):
    """well-formed stream of at least min_bytes bytes (a long capture)"""
    k = knobs or gen.Knobs(rng)
    k.max_buf = max(k.max_buf, 32)
    g = gen.Gen(rng, k)
    trees, metas, n = [], [], 0
    while n < min_bytes:
        g.nodes = 0
        cmd, rsp = g.exchange()
        for t_, meta in ((cmd, dict(kind="command", cc=None, enc=None)), (rsp, dict(kind="response", cc=cmd[2], enc=True if rsp[7] else None))):
            trees.append(t_)
            metas.append(meta)
            n += len(gen.serialise(t_)[0])
    data, items, bounds = gen.serialise_stream(trees)
    return dict(root=model.STREAM, data=data, cc=None, enc=None, items=items, arms=g.arms, knobs=k, bounds=bounds, metas=metas,
                label="long-stream:%d" % len(trees))


BLOCKS = (4096, 8192, 8192, 16384)


def aligned_fault(rng, min_extra=300):
    """a long capture in which the point where a fault is detected (the reference's consumed offset at the first problem)
    falls exactly on a multiple of a block size a buffered reader would use.  Built by inserting one GetRandom exchange
    with a fitting number of random bytes in front of the faulted exchange.  -> (inp, data, recs) or None"""
    from .. import faults as F
    B = rng.choice(BLOCKS)
    inp = long_stream(rng, B + min_extra)
    data, bounds = inp["data"], inp["bounds"]
    o = model.decode(model.STREAM, data)
    # the fault goes into one of the last messages that start beyond B - 2000
    tmsgs = [j for j in range(len(bounds) - 1) if bounds[j] >= B - 2000] or [len(bounds) - 2]
    j = rng.choice(tmsgs)
    a, e = bounds[j], bounds[j + 1]
    leaves = [i for i in F.constrained_leaves(o) if a <= o.items[i][4] < e]
    sizes = [i for i, _r in o.sizefields if a <= o.items[i][4] < e]
    f = None
    if leaves and (rng.random() < 0.6 or not sizes):
        f = F.fault_value(data, o, rng, idx=rng.choice(leaves))
    elif sizes:
        f = F.fault_size(data, o, rng, idx=rng.choice(sizes))
    if not f:
        return None
    fdata, rec = f
    o2 = model.decode(model.STREAM, fdata)
    alts = [x for x in (o2.problem or []) if "rem_off" in x]
    if not alts:
        return None
    r = rng.choice(alts)["rem_off"]
    if rng.random() < 0.25:
        r = min(len(fdata), r + 1)          # one byte beyond, for readers that fetch the look-ahead byte with the block
    b = bounds[j - (j % 2)]                  # start of the exchange the faulted message belongs to
    d = (-r) % B
    if d < 24:
        d += B
    n = d - 24
    if n > 65535:
        return None
    rnd = bytes(rng.randrange(256) for _ in range(n))
    align = (b"\x80\x01\x00\x00\x00\x0c\x00\x00\x01\x7b" + n.to_bytes(2, "big")
             + b"\x80\x01" + (12 + n).to_bytes(4, "big") + b"\x00\x00\x00\x00" + n.to_bytes(2, "big") + rnd)
    new = fdata[:b] + align + fdata[b:]
    rec = dict(rec, off=rec["off"] + len(align), aligned_to=B, kind=rec["kind"])
    inp = dict(inp, data=data[:b] + align + data[b:], label="aligned-%d:%s" % (B, inp["label"]))
    return inp, new, [rec]


def perturb(rng, main_specs, p_by=0.4, max_by=2, roots=False):
    """adds bystanders, picks source kinds for the main tasks and draws a concrete schedule.  roots: 10% of the runs decode
    under a caller-chosen root path (a public parameter of every front-end) - only for oracles that work on the
    root-relative items, not on event objects of different tasks"""
    specs = list(main_specs)
    if roots and rng.random() < 0.1:
        r = rng.choice(ROOTS)
        if "[" in r and rng.random() < 0.4:
            r = "~" + r         # written down with Path.from_string: prints the same, indices are part of the node names
        for s in specs:
            s["root_path"] = r
    if rng.random() < 0.05:
        for s in specs:
            s["in_except"] = True
    for s in specs:
        if "source" not in s:
            s["source"] = rng.choice(world.SOURCE_KINDS) if rng.random() < 0.95 else "realfile"
            if s["source"] == "realfile":
                s["chunks"] = [rng.randrange(3)]
    if rng.random() < p_by:
        specs += bystanders(rng, rng.randint(1, max_by))
    ids = [s["id"] for s in specs]
    est = {}
    for s in specs:
        n = len(s["data"]) // 2
        est[s["id"]] = n * 2 + 8
        est[s["id"] + "#bytes"] = n
    counting = [s["id"] for s in specs if s.get("source") == "counting"]
    sched = world.make_schedule(rng, ids, est, counting_ids=counting) if len(specs) > 1 else {"policy": "sequential"}
    return specs, sched


def first_diff(a, b):
    n = min(len(a), len(b))
    for i in range(n):
        if a[i] != b[i]:
            return i, a[i], b[i]
    if len(a) != len(b):
        return n, (a[n] if len(a) > n else "<end>"), (b[n] if len(b) > n else "<end>")
    return None


def show_diff(got, exp, what="events"):
    d = first_diff(got, exp)
    if d is None:
        return "%s equal" % what
    return "%s differ at index %d: got %r, expected %r (lengths %d vs %d)" % (what, d[0], d[1], d[2], len(got), len(exp))


def process_env(case):
    """process-wide settings a host application may have made (drawn from the case's own digest, so a replay needs
    nothing else): DEBUG logging with a handler that really formats the records, warnings attributed to the library
    turned into errors"""
    h = int(__import__("hashlib").sha256(jdump([t.get("data", "")[:64] for t in case["tasks"]]).encode()).hexdigest()[:4], 16)
    return {"debug_logging": h % 20 == 0, "warnings_as_errors": h % 20 == 1}


class _Env:
    def __init__(self, env):
        self.env = env

    def __enter__(self):
        import io
        import logging
        import warnings
        self.saved = None
        if self.env["debug_logging"]:
            root = logging.getLogger()
            self.saved = (root.level, list(root.handlers))
            self.handler = logging.StreamHandler(io.StringIO())
            self.handler.setFormatter(logging.Formatter("%(name)s %(levelname)s %(message)s"))
            root.handlers = [self.handler]
            root.setLevel(logging.DEBUG)
        self.cw = None
        if self.env["warnings_as_errors"]:
            self.cw = warnings.catch_warnings()
            self.cw.__enter__()
            warnings.filterwarnings("error", module=r"tpmstream(\..*)?")
        return self

    def __exit__(self, *a):
        import logging
        if self.saved is not None:
            root = logging.getLogger()
            root.handlers = self.saved[1]
            root.setLevel(self.saved[0])
        if self.cw is not None:
            self.cw.__exit__(*a)
        return False


def run_world(case, res=None):
    env = process_env(case)
    with _Env(env):
        w = world.World(case["tasks"], case.get("schedule")).run()
    if res is not None:
        for k_, v_ in env.items():
            if v_:
                res.count("env:" + k_)
    if res is not None:
        if any(t.get("root_path") for t in case["tasks"]):
            res.count("decoded-under-caller-chosen-root")
        if any(t.get("stray_cc") for t in case["tasks"]):
            res.count("command-code-argument-given-for-non-response")
        res.sched = w.schedule_digest()
        res.digest = w.digest()
        res.count("steps", len(w.history))
        res.count("bytes", sum(t.n_input for t in w.tasks.values()))
        res.count("tasks", len(w.tasks))
        res.count("policy:" + (case.get("schedule") or {}).get("policy", "sequential"))
        if (case.get("schedule") or {}).get("preempt"):
            res.count("fault:preempt_inside_pull", sum(1 for s in w.history if s[2]))
        res.count("fault:cancel_bystander", sum(1 for t in w.tasks.values() if t.cancelled))
        for t in w.tasks.values():
            res.count("source:" + t.spec.get("source", "bytes"))
    return w


def shrink_tasks(case, keep):
    """generic shrinking of the scenario part: drop bystanders, sequential schedule, plain source"""
    tasks = case["tasks"]
    if len(tasks) > len(keep):
        c = dict(case)
        c["tasks"] = [t for t in tasks if t["id"] in keep]
        c["schedule"] = {"policy": "sequential"}
        yield c
    if (case.get("schedule") or {}).get("policy", "sequential") != "sequential":
        c = dict(case)
        c["schedule"] = {"policy": "sequential"}
        yield c
    sch = case.get("schedule") or {}
    if sch.get("preempt"):
        c = dict(case)
        c["schedule"] = dict(sch)
        c["schedule"].pop("preempt")
        yield c
    for i, t in enumerate(tasks):
        if t.get("source", "bytes") != "bytes" and t["id"] in keep:
            c = dict(case)
            c["tasks"] = [dict(x) for x in tasks]
            c["tasks"][i]["source"] = "bytes"
            yield c


def jdump(x):
    return json.dumps(x, sort_keys=True, default=str)


# ---- fault cases ------------------------------------------------------------------------------
def stray_cc(rng, s, p=0.05):
    """the command_code argument is accepted by every front-end for every type; for anything but a lone Response it
    must not matter (5% of the runs pass one)"""
    if s["type"] != "Response" and s.get("cc") is None and rng.random() < p:
        s["cc"] = rng.choice(sorted(layout().commands))
        s["stray_cc"] = True
    if s["type"] == "Response" and s.get("enc") is None and rng.random() < 0.08:
        s["enc"] = False          # "not encrypted" said explicitly instead of left out
    # likewise the parameter_encryption argument: it means something for a lone Response (and for a parameter area decoded
    # on its own), for everything else it must not matter
    if s["type"] != "Response" and s["type"] not in layout().area_names() and s.get("enc") is None and rng.random() < p / 2:
        s["enc"] = True
        s["stray_cc"] = True
    return s


def mk_case(rng, inp, data, recs, strict=True, extra=None, perturbation=True, **kw):
    """case with one main decode of `data` (possibly faulted) of the input's type"""
    main = spec("main", inp["root"], data, inp["cc"], inp["enc"], strict=strict)
    stray_cc(rng, main)
    specs = [main] + list(extra or [])
    if perturbation:
        tasks, sched = perturb(rng, specs, p_by=0.2, roots=True)
    else:
        tasks, sched = specs, {"policy": "sequential"}
    case = {"input": {"root": inp["root"], "cc": inp["cc"], "enc": inp["enc"], "label": inp["label"],
                      "orig": bytes(inp["data"]).hex()},
            "faults": recs, "tasks": tasks, "schedule": sched}
    case.update(kw)
    return case


def count_faults(res, case, outcome_class=None):
    from .. import faults as F
    for r in case.get("faults", []):
        res.count("fault:" + r["kind"])
        if r.get("cls"):
            res.count("faultctx:%s:%s:d%s" % (r["kind"], r.get("cls"), r.get("depth")))
        res.ctx.append(F.ctx_key(r, outcome_class))


def main_ref(case, w, lenient=False):
    """(task, data, reference outcome) of the main task"""
    t = w.tasks["main"]
    s = t.spec
    data = bytes.fromhex(s["data"])
    o = model.decode(s["type"], data, cc=s.get("cc"), enc=s.get("enc"), lenient=lenient)
    return t, data, o


def shrink_bytes_tail(case, tid="main"):
    """drop trailing bytes / whole trailing messages of the main input (generic, property re-checks)"""
    for i, t in enumerate(case["tasks"]):
        if t["id"] != tid:
            continue
        d = t["data"]
        n = len(d) // 2
        for keep in (n // 2, n - 8, n - 1):
            if 0 <= keep < n:
                c = dict(case)
                c["tasks"] = [dict(x) for x in case["tasks"]]
                c["tasks"][i]["data"] = d[:2 * keep]
                yield c


def scenario_stream(rng):
    """a capture whose messages belong together, the way real traffic does: handles returned by one response are used by
    later commands, an NV index that is defined is then written, read (whole, from offset 0) and looked up, a hash
    sequence is started, fed and completed.  Nothing here is special to the layout tables - every message is well-formed
    on its own; only the *values* are related across messages.  -> input dict like gen_input(("stream", ...))"""
    L = layout()
    k = gen.Knobs(rng)
    k.p_fail, k.p_absent, k.max_nodes = 0.0, 0.0, max(k.max_nodes, 60)
    g = gen.Gen(rng, k)
    cc = L.cc_by_name
    kind = rng.choice(("nv", "nv", "object", "sequence", "mixed", "policy"))
    loc = rng.choice((1, 2, 4, 8, 16, 3, 32, 64, 0x41))                  # the locality a policy names is the locality objects get created at
    nt = n = idx = None
    if kind == "nv":
        nt = rng.choice((0, 1, 2, 4, 8, 9))                       # ordinary, counter, bits, extend, PIN fail, PIN pass
        n = 8 if nt in (1, 2, 8, 9) else rng.choice((20, 32)) if nt == 4 else rng.choice((1, 8, 16, 32, 64))
        idx = 0x01000000 | rng.randrange(1 << 24)
        seq = ["NV_DefineSpace"] + rng.sample(["NV_Write", "NV_Read", "NV_ReadPublic", "NV_Read", "NV_Increment", "NV_ReadLock"], rng.randint(2, 4))
        if "NV_Read" not in seq or rng.random() < 0.5:
            seq.append("NV_Read")
        if rng.random() < 0.3:
            seq.append("NV_UndefineSpace")
    elif kind == "object":
        seq = [rng.choice(("CreatePrimary", "Load", "LoadExternal", "CreateLoaded"))] + rng.sample(["ReadPublic", "Sign", "Certify", "ObjectChangeAuth", "Unseal", "ContextSave", "EvictControl", "RSA_Decrypt", "HMAC"], rng.randint(1, 3)) + ["FlushContext"]
    elif kind == "sequence":
        seq = [rng.choice(("HashSequenceStart", "HMAC_Start"))] + ["SequenceUpdate"] * rng.randint(1, 3) + [rng.choice(("SequenceComplete", "EventSequenceComplete"))]
    elif kind == "policy":
        seq = ["StartAuthSession"] + rng.sample(["PolicyLocality", "PolicyPCR", "PolicyCommandCode", "PolicyAuthValue", "PolicyLocality"], rng.randint(2, 3)) + \
              [rng.choice(("CreatePrimary", "Create", "CreateLoaded"))] + (["CertifyCreation"] if rng.random() < 0.3 else []) + ["FlushContext"]
        if "PolicyLocality" not in seq:
            seq.insert(1, "PolicyLocality")
    else:
        seq = ["StartAuthSession", "CreatePrimary", "NV_DefineSpace", "NV_Read", "ReadPublic", "PCR_Extend", "PCR_Read", "FlushContext"]
        idx, nt, n = 0x01000000 | rng.randrange(1 << 24), rng.choice((0, 8, 9)), 8
    seq = [c for c in seq if c in cc]
    known = []                                                    # handles seen so far in responses / definitions, newest last
    if idx is not None:
        known.append(idx)

    def patch(tree, fixes):
        data, items = gen.serialise(tree)
        b = bytearray(data)
        for it in items:
            if it[0] != "P":
                continue
            for suffix, val in fixes:
                if it[1].endswith(suffix) and val is not None and L.valid(it[2], val):
                    b[it[4]:it[4] + it[5]] = int(val).to_bytes(it[5], "big")
            if it[1].startswith(".handles.") and it[5] == 4 and rng.random() < 0.8:
                fit = [h for h in reversed(known) if L.valid(it[2], h)]
                if fit:
                    b[it[4]:it[4] + 4] = fit[0].to_bytes(4, "big")
        return bytes(b)
    out, metas = [], []
    for name in seq:
        c = cc[name]
        ns = rng.choice((0, 0, 1, 2))
        cmd, resp_enc = g.command(cc=c, n_sessions=ns, enc=False, resp_enc=False)
        if cmd[4] is None and L.commands[c]["cmd_handles"] and name.startswith("NV_") and rng.random() < 0.5:
            cmd, resp_enc = g.command(cc=c, n_sessions=1, enc=False, resp_enc=False)
        fixes = []
        if name == "NV_DefineSpace" and idx is not None:
            attrs = (rng.randrange(1 << 32) & ~0xF0) | (nt << 4)
            fixes = [(".nvPublic.nvIndex", idx), (".nvPublic.attributes", attrs), (".nvPublic.dataSize", n)]
        elif name == "NV_Read" and n is not None:
            fixes = [(".parameters.size", n), (".parameters.offset", 0)]
        elif name == "NV_Write":
            fixes = [(".parameters.offset", 0)]
        elif name == "PolicyLocality":
            fixes = [(".parameters.locality", loc)]
        cb = patch(cmd, fixes)
        if name in ("NV_Read", "NV_Write") and n is not None:
            g.buf_size = lambda n=n: n
        if name == "NV_Write" and n is not None:
            cmd, resp_enc = g.command(cc=c, n_sessions=ns, enc=False, resp_enc=False)
            cb = patch(cmd, fixes)
        rsp = g.response(c, enc=False, fail=False, n_sessions=(len(cmd[4]) if cmd[4] else 0))
        if "buf_size" in vars(g):
            del g.buf_size
        rb, ritems = gen.serialise(rsp)
        for it in ritems:
            if it[0] == "P" and it[1].startswith(".handles.") and it[5] == 4:
                known.append(it[3])
        if name == "NV_ReadPublic" and idx is not None:
            rb = patch(rsp, [(".nvPublic.nvIndex", idx), (".nvPublic.dataSize", n)])
        elif name in ("CreatePrimary", "Create", "CreateLoaded") and kind in ("policy", "mixed"):
            rb = patch(rsp, [(".creationData.locality", loc)])
        out += [cb, rb]
        metas += [dict(kind="command", cc=None, enc=None), dict(kind="response", cc=c, enc=None)]
    data = b"".join(out)
    bounds = [0]
    for m in out:
        bounds.append(bounds[-1] + len(m))
    o = model.decode(model.STREAM, data)
    if not o.ok:
        return None
    return dict(root=model.STREAM, data=data, cc=None, enc=None, items=o.items, arms=g.arms, knobs=k, bounds=bounds, metas=metas,
                label="scenario:%s:%d" % (kind if nt is None else "%s-nt%d" % (kind, nt), len(out)))


def uniform_assumption_fault(rng, inp, o):
    """a size field that encloses a list of elements of different sizes is off by exactly what a size computed as
    count x (size of one element) would be off by (F.uniform_deltas).  Lists of differently sized elements are digests of
    several banks, PCR selections, sessions, capability lists: if the input at hand has none, an exchange around such a
    list is generated instead, three times out of four.  -> (inp, data, fault records) or None"""
    from .. import faults as F
    if not F.uniform_deltas(o) and rng.random() < 0.75:
        for _ in range(8):
            cc_ = rng.choice((0x17E, 0x13C, 0x185, 0x171, 0x182, 0x17A, 0x12B, rng.choice(sorted(layout().commands))))
            k = gen.Knobs(rng)
            k.max_list = max(k.max_list, 3)
            t = ("response", cc_, rng.choice((0, 1, 1, 2)), False, False) if rng.random() < 0.6 else ("command", cc_, rng.choice((0, 1, 2)), False)
            inp2 = gen_input(rng, t, k)
            o2 = model.decode(inp2["root"], inp2["data"], cc=inp2["cc"], enc=inp2["enc"])
            if o2.ok and F.uniform_deltas(o2):
                inp, o = inp2, o2
                break
    lists = F.uniform_deltas(o)
    if not lists:
        return None
    a, b, dd = rng.choice(lists)
    size_item = {ri: idx for idx, ri in o.sizefields}
    encl = [(ri, r) for ri, r in enumerate(o.regions) if r.max is not None and ri in size_item and r.start <= a and b <= r.start + r.max]
    if not encl:
        return None
    ri, r = rng.choice(encl)
    sit = o.items[size_item[ri]]
    d = rng.choice(dd)
    nd = F.put(inp["data"], sit, sit[3] + d)
    if nd is None or sit[3] + d < 0:
        return None
    recs = [F._rec("size", o, sit, size_item[ri], old=sit[3], new=sit[3] + d, region=r.kind, delta="uniform-assumption")]
    if rng.random() < 0.3:
        fa = F.fault_append(nd, o, rng)
        if fa:
            return inp, fa[0], recs + [fa[1]]
    return inp, nd, recs


def nested_chain_fault(rng, inp, o, p_append=0.6):
    """one field overruns two, three or more nested regions at once (F.fault_nested_chain).  Three deep exists in responses
    with a session area (responseSize > parameterSize > a structure TPM2B) and in user-declared nested TPM2Bs: if the
    given input has none, a response with sessions is generated instead, three times out of four.
    -> (inp, data, fault records) or None"""
    from .. import faults as F
    ch = F.enclosing_chains(o)
    if (not ch or max(len(c) for _, c in ch) < 3) and rng.random() < 0.75:
        for _ in range(6):
            cc_ = rng.choice(sorted(layout().commands))
            inp2 = gen_input(rng, ("response", cc_, rng.choice((1, 1, 2, 3)), False, False))
            o2 = model.decode(inp2["root"], inp2["data"], cc=inp2["cc"], enc=inp2["enc"])
            if o2.ok and F.enclosing_chains(o2, 3):
                inp, o, ch = inp2, o2, F.enclosing_chains(o2)
                break
    f = F.fault_nested_chain(inp["data"], o, rng, ch)
    if not f:
        return None
    d2, recs = f
    if rng.random() < p_append:
        fa = F.fault_append(d2, o, rng)
        if fa:
            return inp, fa[0], recs + [fa[1]]
    return inp, d2, recs


def gen_malformed(rng, i, p_wellformed=0.1, allow_random=True, huge=False):
    """one input of the C01-C06 families: well-formed, size / value / crash-point faults (single or
    multiple), history faults on streams, random bytes.  -> (inp, data, recs, family)"""
    from .. import faults as F
    from .. import synth
    r = rng.random()
    if allow_random and r < 0.05:
        n = rng.choice((0, 1, 2, 6, 10, 12, 20, 40))
        data = bytes(rng.randrange(256) for _ in range(n))
        L = layout()
        root = rng.choice(["Command", "Response", model.STREAM, rng.choice(L.struct_names())])
        cc = rng.choice(sorted(L.commands)) if root == "Response" else None
        inp = dict(root=root, data=data, cc=cc, enc=None, label="random:%d" % n)
        return inp, data, [dict(kind="random-bytes", cls="raw", depth=0, regions=[])], "random"
    if rng.random() < 0.08:
        inp = synth.gen_input(rng)
    elif rng.random() < 0.12:
        inp = gen_input(rng, ("stream", None))
    else:
        inp = gen_input(rng, target_for(i, rng), huge=huge)
    if huge and rng.random() < 0.0015:
        # a long capture in which one size field is corrupted upwards by several kB (a flipped upper byte): the declared
        # end lies thousands of bytes further on, inside the input
        inp = long_stream(rng, rng.choice((5500, 6000, 9000)))
        o = model.decode(inp["root"], inp["data"])
        cands = [(idx, ri) for idx, ri in o.sizefields if o.items[idx][4] < len(inp["data"]) // 3]
        if cands:
            idx, ri = rng.choice(cands)
            it = o.items[idx]
            room = len(inp["data"]) - (o.regions[ri].start + (o.regions[ri].max or 0))
            lo_, hi_ = layout().bounds(it[2])
            if room > 4200:
                new = min(hi_, it[3] + rng.randint(4097, min(room - 1, 60000)))
                f = F.fault_size(inp["data"], o, rng, idx=idx, value=new)
                if f:
                    return inp, f[0], [dict(f[1], delta="far")], "far-size"
    if huge and inp["root"] == model.STREAM and rng.random() < 0.02 and len(inp.get("bounds", ())) > 2:
        # an outermost size field corrupted by 64 KiB or more (one flipped upper byte) with that much capture following:
        # the region to skip is filler (nothing in it is decoded), decoding resumes at / near the next message
        o = model.decode(inp["root"], inp["data"])
        b1 = inp["bounds"][1]
        idx = next((i for i, ri in o.sizefields if o.regions[ri].kind == "commandSize"), None)
        if idx is not None:
            n = rng.choice((65536, 65537, 66000, 70000, 131072 + 5))
            it = o.items[idx]
            filler = bytes(rng.randrange(256) for _ in range(97)) * (n // 97 + 1)
            gap = n + rng.choice((0, 0, 0, 1, -1, 3))
            d2 = F.put(inp["data"], it, it[3] + n)
            if d2 is not None and gap > 0:
                data = d2[:b1] + filler[:gap] + d2[b1:]
                rec = F._rec("size", o, it, idx, old=it[3], new=it[3] + n, region="commandSize", delta="far-filler")
                return inp, data, [rec, dict(kind="insert", off=b1, depth=0, regions=[], cls="filler", n=gap)], "far-filler"
    o = model.decode(inp["root"], inp["data"], cc=inp["cc"], enc=inp["enc"])
    data = inp["data"]
    if r < 0.05 + p_wellformed:
        return inp, data, [], "wellformed"
    if rng.random() < 0.12 and len(o.sizefields) > 1:
        # a nested size field whose declared end lies at / just beyond the end of an enclosing region, with input
        # following (later messages or surplus), so that recovery has somewhere to land
        nested = [i for i, r_ in o.sizefields if F.depth_at(o, o.items[i][4]) >= 1 and o.regions[r_].kind in ("tpm2b", "authSize", "parameterSize")]
        if nested:
            idx = rng.choice(nested)
            vs = F.size_variants(o, idx)[10:] or F.size_variants(o, idx)
            f = F.fault_size(data, o, rng, idx=idx, value=rng.choice(vs))
            if f:
                data, rec = f
                recs = [rec]
                if inp["root"] != model.STREAM or rng.random() < 0.3:
                    fa = F.fault_append(data, o, rng)
                    if fa:
                        data, rec2 = fa
                        recs.append(rec2)
                return inp, data, recs, "beyond-enclosing"
    r = rng.random()
    if inp["root"] == model.STREAM and rng.random() < 0.04 and len(inp.get("bounds", ())) > 1:
        # the outermost size field of the *last* message is too large by k and exactly k bytes (or k +- 1, or k bytes of the
        # start of another message) end the input: a shortfall whose padding is exactly what is left
        last = [i_ for i_, ri in o.sizefields if o.regions[ri].kind in ("commandSize", "responseSize")]
        if last:
            idx = last[-1]
            it = o.items[idx]
            k = rng.choice((1, 2, 3, 4, 8, 10, 13))
            d2 = F.put(data, it, it[3] + k)
            if d2 is not None:
                n_ = k + rng.choice((0, 0, 0, 1, -1))
                filler = (b"\x80\x01\x00\x00\x00\x0c\x00\x00\x01\x7b\x00\x10" * 2)[:max(0, n_)] if rng.random() < 0.5 else bytes(rng.randrange(256) for _ in range(max(0, n_)))
                return inp, d2 + filler, [F._rec("size", o, it, idx, old=it[3], new=it[3] + k, region="outermost", delta="pad-exact"),
                                          dict(kind="append", off=len(d2), depth=0, regions=[], cls="end", n=len(filler))], "pad-exact"
    if rng.random() < 0.03:
        f = F.fault_end_at_selector(data, o, rng)
        if f:
            return inp, f[0], f[1], "end-at-selector"
    if rng.random() < 0.05:
        f = nested_chain_fault(rng, inp, o)
        if f:
            return f[0], f[1], f[2], "nested-chain"
    if rng.random() < 0.03:
        f = uniform_assumption_fault(rng, inp, o)
        if f:
            return f[0], f[1], f[2], "uniform-assumption"
    if rng.random() < 0.06:
        f = F.fault_nested_pair(data, o, rng)
        if f:
            d2 = f[0]
            if inp["root"] != model.STREAM or rng.random() < 0.3:
                fa = F.fault_append(d2, o, rng)
                if fa:
                    return inp, fa[0], f[1] + [fa[1]], "nested-pair"
            return inp, d2, f[1], "nested-pair"
    if rng.random() < 0.06:
        f = F.fault_straddle(data, o, rng)
        if f:
            d2 = f[0]
            if rng.random() < 0.5:
                fa = F.fault_append(d2, o, rng)
                if fa:
                    return inp, fa[0], f[1] + [fa[1]], "straddle"
            return inp, d2, f[1], "straddle"
    if r < 0.30:
        f = F.fault_size(data, o, rng)
        fam = "size"
        recs = []
        if f:
            data, rec = f
            recs = [rec]
        return inp, data, recs, fam
    if r < 0.45:
        recs = []
        for _ in range(rng.randint(1, 2)):
            f = F.fault_value(data, o, rng, value_only=rng.random() < 0.7)
            if f:
                data, rec = f
                recs.append(rec)
        return inp, data, recs, "value"
    if r < 0.60:
        f = F.fault_trunc(data, o, rng) if rng.random() < 0.6 else F.fault_append(data, o, rng)
        if f:
            return inp, f[0], [f[1]], "length"
        return inp, data, [], "wellformed"
    if r < 0.70 and inp["root"] == model.STREAM:
        f = F.history_faults(data, inp["bounds"], rng)
        if f:
            return inp, f[0], [f[1]], "history"
    kinds = sorted(F.MEDIUM)
    k = rng.sample(kinds, rng.randint(2, len(kinds)))
    data, recs = F.apply_random(data, o, rng, k, rng.randint(1, 3))
    return inp, data, recs, "multi"


PUT_KINDS = ("size", "count", "value", "boundary", "selector_other_arm", "selector_invalid", "tag", "rc", "attr", "cc")


def shrink_faults(case, ids=("main",)):
    """fault-trace minimisation: re-apply every proper subset (all-but-one, then singles) of the in-place faults
    to the original bytes.  Only for faults that overwrite a field in place (offsets do not shift)."""
    faults = case.get("faults") or []
    orig = (case.get("input") or {}).get("orig")
    if len(faults) < 2 or not orig or not all(f.get("kind") in PUT_KINDS and "new" in f and "off" in f for f in faults):
        return
    L = layout()
    subsets = [[f for j, f in enumerate(faults) if j != k] for k in range(len(faults))]
    if len(faults) > 2:
        subsets += [[f] for f in faults]
    for sub in subsets:
        b = bytearray(bytes.fromhex(orig))
        ok = True
        for f in sub:
            t = L.types.get(f["type"])
            if t is None or t["kind"] != "prim":
                ok = False
                break
            try:
                b[f["off"]:f["off"] + t["size"]] = int(f["new"]).to_bytes(t["size"], "big", signed=t["signed"])
            except OverflowError:
                ok = False
                break
        if not ok:
            continue
        c = dict(case)
        c["faults"] = sub
        c["tasks"] = [dict(t, data=bytes(b).hex()) if t["id"] in ids else t for t in case["tasks"]]
        yield c


# ---- enumeration inside one run (thorough tier, and a quota of quick runs) --------------------------
def with_variants(case, variants):
    """variants: [(data bytes, fault records)] - the same scenario is replayed once per variant"""
    case = dict(case)
    case["variants"] = [{"data": bytes(d).hex(), "faults": f} for d, f in variants]
    return case


def check_variants(case, check_one):
    """runs check_one on every variant of the case and merges the results"""
    from ..runner import Result
    res = Result()
    from .. import watchdog
    for k, v in enumerate(case["variants"]):
        watchdog.rearm()
        sub = {kk: vv for kk, vv in case.items() if kk != "variants"}
        sub["faults"] = v["faults"]
        sub["tasks"] = [dict(t, data=v["data"]) if t["id"] == "main" else t for t in case["tasks"]]
        r = check_one(sub)
        res.violations += r.violations
        res.stats.update(r.stats)
        res.keys += r.keys
        res.ctx += r.ctx
        res.sched = r.sched
        res.digest = (res.digest or "") + (r.digest or "")
    res.count("enumerated-variants", len(case["variants"]))
    res.count("runs-with-full-enumeration")
    return res


def shrink_variants(case):
    """each variant alone (the minimiser keeps the first that still fails)"""
    for v in case.get("variants", []):
        sub = {kk: vv for kk, vv in case.items() if kk != "variants"}
        sub["faults"] = v["faults"]
        sub["tasks"] = [dict(t, data=v["data"]) if t["id"] == "main" else t for t in case["tasks"]]
        yield sub


def shrink_buffers(case, ids=("main",)):
    """input minimisation: empty one byte buffer of the well-formed original at a time (largest first), fix the
    enclosing size fields, and re-apply the in-place faults by *path*"""
    inp = case.get("input") or {}
    orig = inp.get("orig")
    faults = case.get("faults") or []
    if orig is None:
        main = next((t for t in case["tasks"] if t["id"] in ids), None)
        if main is None or faults:
            return
        orig = main["data"]
    if not all(f.get("kind") in PUT_KINDS and "new" in f and "path" in f for f in faults):
        return
    root = inp.get("root")
    if root is None:
        return
    L = layout()
    data = bytes.fromhex(orig)
    o = model.decode(root, data, cc=inp.get("cc"), enc=inp.get("enc"))
    if not o.ok:
        return
    size_item = {ri: idx for idx, ri in o.sizefields}
    cands = []
    for idx, ri in o.sizefields:
        r = o.regions[ri]
        if r.kind != "tpm2b" or not r.max or idx + 1 >= len(o.items):
            continue
        nxt = o.items[idx + 1]
        if nxt[0] == "S" and nxt[2] == "list[BYTE]":
            cands.append((r.max, idx, ri))
    for n, idx, ri in sorted(cands, reverse=True)[:6]:
        r = o.regions[ri]
        b = bytearray(data)
        # enclosing regions shrink by n, the buffer's own size becomes 0
        ok = True
        for rj, e in enumerate(o.regions):
            if e is r or e.max is None or not (e.start <= r.start and r.start + r.max <= e.start + e.max) or rj not in size_item:
                continue
            it = o.items[size_item[rj]]
            t = L.types[it[2]]
            b[it[4]:it[4] + t["size"]] = (it[3] - n).to_bytes(t["size"], "big")
        it = o.items[idx]
        b[it[4]:it[4] + it[5]] = (0).to_bytes(it[5], "big")
        new = bytes(b[:r.start] + b[r.start + n:])
        o2 = model.decode(root, new, cc=inp.get("cc"), enc=inp.get("enc"))
        if not o2.ok:
            continue
        d2 = bytearray(new)
        recs = []
        for f in faults:
            j = next((k for k, x in enumerate(o2.items) if x[0] == "P" and x[1] == f["path"] and x[2] == f["type"]), None)
            if j is None:
                ok = False
                break
            x = o2.items[j]
            t = L.types[x[2]]
            try:
                d2[x[4]:x[4] + t["size"]] = int(f["new"]).to_bytes(t["size"], "big", signed=t["signed"])
            except OverflowError:
                ok = False
                break
            recs.append(dict(f, off=x[4], item=j))
        if not ok:
            continue
        c = dict(case)
        c["input"] = dict(inp, orig=new.hex())
        c["faults"] = recs
        c["tasks"] = [dict(t, data=bytes(d2).hex()) if t["id"] in ids else t for t in case["tasks"]]
        yield c


# ---- OS threads under a seeded line-level schedule (sim/threads.py, in a fresh interpreter) -----------------------------------
def check_threads(res, pid, specs, seed, concat=None, label=""):
    """decodes `specs` concurrently in baton-passed OS threads of a fresh interpreter (one seed = one interleaving at the
    granularity of lines of library code) and compares every thread's result with the sequential result of the same spec
    in this process: comparable forms of the events, outcome, re-encoding, object conversion; for identical specs also
    `==` of the real events / objects across threads; for a stream and its messages the concatenation."""
    import json
    from .. import pristine, threads
    specs = [dict(s_, source="bytes") for s_ in specs]
    for s_ in specs:
        for k_ in ("cancel_at", "chunks", "in_except"):
            s_.pop(k_, None)
    out = pristine.run_threads(specs, seed, gap=(8, 25, 60, 200)[seed % 4], concat=concat)
    res.count("thread-probes")
    if "error" in out:
        res.v(pid + ".H", "%s.H:threads:hang" % pid, "%s: %s (seed %d)" % (label, out["error"], seed))
        return
    res.count("thread-switches", out.get("switches", 0))
    res.count("thread-lines-traced", out.get("lines", 0))
    for s_, r_ in zip(specs, out["results"]):
        seq = threads._body(s_)
        t = seq["task"]
        want = json.loads(json.dumps({"items": t.items, "outcome": list(t.outcome()), "reenc": seq["reenc"], "conv": seq["conv"]}, default=str))
        for aspect in ("outcome", "items", "reenc", "conv"):
            if r_[aspect] != want[aspect]:
                res.v(pid + ".H", "%s.H:threads:%s" % (pid, aspect),
                      "%s: task %s decoded in an OS thread next to %d other decodes (seeded line-level schedule %d, %d switches) differs from the same decode "
                      "done alone: %s %s vs %s" % (label, s_["id"], len(specs) - 1, seed, out.get("switches", 0), aspect,
                                                    str(r_[aspect])[:300] if aspect != "items" else show_diff(r_["items"] or [], want["items"]), "" if aspect == "items" else str(want[aspect])[:200]))
                return
    for i, j, ev_eq, ob_eq in out["dups"]:
        has_warning = any(it[0] == "W" for it in (out["results"][i]["items"] or []))
        if ev_eq is False or ob_eq is False:
            res.v(pid + ".H", "%s.H:threads:cross-thread-%s" % (pid, "events" if ev_eq is False else "objects"),
                  "%s: the same arguments decoded in two OS threads (%s, %s; schedule %d) give %s that do not compare equal%s" % (
                      label, specs[i]["id"], specs[j]["id"], seed, "events" if ev_eq is False else "objects",
                      " (comparable forms are equal)" if out["results"][i]["items"] == out["results"][j]["items"] else ""))
            return
    if concat is not None and out.get("concat") is False:
        res.v(pid + ".H", "%s.H:threads:stream-vs-messages" % pid, "%s: the stream decoded in one OS thread != the concatenation of its messages decoded in "
              "other threads (schedule %d), with ==" % (label, seed))

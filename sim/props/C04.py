"""C04 - strict mode rejects exactly the inputs containing an out-of-range value.

Workload: a well-formed message; one constrained leaf replaced by a value just outside / far outside
its allowed set, or by a *valid* boundary value (must still be accepted); a quota of runs with two bad
fields (the first in wire order must be reported).  Oracle: reference model on the mutated bytes.
"""
from .. import faults as F
from .. import model, oracle, real
from ..layout import layout
from ..runner import HarnessError, Result
from . import common

ID = "C04"
LEVEL = "fault_enumeration"
RULE = ("each run: generated well-formed input, then a constrained leaf (type allows fewer values than its width) set "
        "to interval end -1/+1, far value, or a valid boundary value; 15% two bad leaves; non-trivial = strict decode "
        "of the mutated bytes compared (raise iff, path/type/value/allowed set, events) with the reference outcome; "
        "distinct = distinct (type, cc, mutated bytes)")
REAL = common.REAL_DECODER
ASSUMPTIONS = ["allowed sets are the pinned snapshot's intervals (audited once against the pinned tree by membership probing)",
               "membership of error.constraint.valid_values is probed at interval end points +-1 and seeded values, never iterated"]
TIERS = {"quick": {"runs": 42000, "budget": 150}, "thorough": {"runs": 900000, "budget": 780}}


def enumerate_all(tier, rng):
    return tier == "thorough" and rng.random() < 0.5 or rng.random() < 0.01


_PLT = None


def prim_list_types():
    """structure types with a counted list of constrained primitives (TPML_CC, TPML_HANDLE, TPML_ALG, ...)"""
    global _PLT
    if _PLT is None:
        L = layout()
        out = []
        for n in L.struct_names():
            t = L.types[n]
            if t["kind"] != "struct":
                continue
            for f in t["fields"]:
                ft = f["type"]
                if isinstance(ft, dict) and L.is_prim(ft["list"]):
                    lo, hi = L.bounds(ft["list"])
                    iv = L.types[ft["list"]]["valid"]
                    if not (len(iv) == 1 and iv[0][0] <= lo and iv[0][1] >= hi):
                        out.append(n)
        _PLT = sorted(set(out))
    return _PLT


def make_case(i, rng, tier):
    if rng.random() < 0.012:
        return cc_arg_case(rng)
    if rng.random() < 0.015 and prim_list_types():
        from .. import gen
        k = gen.Knobs(rng)
        k.many = rng.choice((65, 80, 100, 256, 300))
        inp = common.gen_input(rng, ("struct", rng.choice(prim_list_types())), k, huge=True)
    elif rng.random() < 0.06:
        # types a user declares with the library's public decorators (a vendor enumeration, a narrowed interface type)
        from .. import synth
        inp = synth.gen_input(rng)
    else:
        inp = common.gen_input(rng, common.target_for(i, rng), huge="many")
    o = model.decode(inp["root"], inp["data"], cc=inp["cc"], enc=inp["enc"])
    if not o.ok:
        raise HarnessError("generator produced a malformed input: %s %s" % (inp["label"], o.problem))
    leaves = F.constrained_leaves(o)
    if enumerate_all(tier, rng) and 0 < len(leaves) <= 60 and len(inp["data"]) <= 1500:
        vs = []
        for idx in leaves:
            it = o.items[idx]
            vals = F.outside_values(it[2], None, far=False)[:6] + F.outside_values(it[2], rng)[-2:] + F.neighbour_values(o, idx)[:4]
            for val in dict.fromkeys(vals):
                f = F.fault_value(inp["data"], o, rng, idx=idx, value=val)
                if f:
                    vs.append((f[0], [f[1]]))
            if idx not in F.field_classes(o):
                for val in F.boundary_values(it[2])[:4]:
                    nd = F.put(inp["data"], it, val)
                    if nd is not None:
                        vs.append((nd, [F._rec("boundary", o, it, idx, old=it[3], new=val)]))
        if vs:
            cap = 150 if tier == "quick" else 400
            if len(vs) > cap:       # a seeded subset, in enumeration order (the quick tier has 75 s for everything)
                keep = set(rng.sample(range(len(vs)), cap))
                vs = [v for j, v in enumerate(vs) if j in keep]
            return common.with_variants(common.mk_case(rng, inp, inp["data"], []), vs)
    data, recs = inp["data"], []
    r = rng.random()
    long_list = [idx for idx in leaves if "[" in o.items[idx][1] and int(o.items[idx][1].rsplit("[", 1)[1].split("]")[0]) >= 40]
    if long_list and r >= 0.2:
        # a long list of constrained primitives: the fault sits late in the list (whatever was learnt from the elements
        # before it must not matter)
        f = F.fault_value(data, o, rng, idx=rng.choice(long_list))
        n = 1
    elif r < 0.2:
        f = F.fault_boundary(data, o, rng)
        n = 0
    else:
        f = F.fault_value(data, o, rng)
        n = 1 if (r < 0.85) else 2
    if f is None:
        return None
    data, rec = f
    recs.append(rec)
    if n == 2:
        f2 = F.fault_value(data, o, rng)
        if f2 is not None and f2[1]["item"] != rec["item"]:
            data, rec2 = f2
            recs.append(rec2)
    return common.mk_case(rng, inp, data, recs)


def cc_arg_case(rng):
    """a successful response decoded on its own with a *reserved* number as its command code (the argument, typed TPM_CC):
    gaps of the table, the neighbours of its ends, zero, a real command code with one higher bit set or + 0x10000 - the
    layout is unknowable, so strict decoding owes the value error for `.commandCode` right after the header"""
    L = layout()
    ccs = sorted(L.commands)
    real_cc = rng.choice(ccs)
    inp = common.gen_input(rng, ("response", real_cc, rng.choice((0, 0, 1)), False, False))
    base = rng.choice(ccs)
    cands = [base | (1 << rng.randrange(16, 32)), base + 0x10000, base | 0x20000000, ccs[0] - 1, ccs[-1] + 1, 0, 0xFFFFFFFF,
             rng.choice([v for v in range(ccs[0], ccs[-1]) if v not in L.commands] or [0])]
    bad = rng.choice([v for v in cands if v not in L.commands and 0 <= v <= 0xFFFFFFFF])
    t = common.spec("main", "Response", inp["data"], bad, None, strict=rng.random() < 0.8, source=rng.choice(("bytes", "counting", "gen")))
    return {"input": {"root": "Response", "cc": real_cc, "enc": None, "label": "cc-argument:%s" % inp["label"], "mode": "cc-arg", "bad": bad, "orig": inp["data"].hex()},
            "faults": [dict(kind="cc-argument", new=bad, cls="argument", depth=0, regions=[])], "tasks": [t], "schedule": {"policy": "sequential"}}


def check_cc_arg(case, res):
    w = common.run_world(case, res)
    t = w.tasks["main"]
    inp = case["input"]
    o = model.decode("Response", bytes.fromhex(inp["orig"]), cc=inp["cc"])
    k = next(n for n, it in enumerate(o.items) if it[0] == "P" and it[1] == ".responseCode") + 1
    want_items = [list(real.model_item(it)) for it in o.items[:k]]
    want_exc = ("ValueConstraintViolatedError", ".commandCode", "TPM_CC", inp["bad"])
    label = "%s decoded with command code 0x%x" % (inp["label"], inp["bad"])
    res.count("reserved-command-code-argument")
    if t.exc_sum is None:
        res.v("C04.a", "C04.a:accepted:command-code-argument", "%s: accepted (%d events); the number is not a command code, the error owed is %r" % (label, len(t.items), want_exc))
    elif tuple(t.exc_sum[:4]) != want_exc:
        res.v("C04.b", "C04.b:details:command-code-argument", "%s: raised %r, expected %r" % (label, t.exc_sum, want_exc))
    elif [list(x) for x in t.items] != want_items:
        res.v("C04.c", "C04.c:events:command-code-argument", "%s: %s" % (label, common.show_diff(t.items, want_items, "events before the error vs the header fields")))
    res.nontrivial("cc-arg", inp["bad"], inp["orig"])
    return res


def probe_values(tname, rng_seed):
    import random
    rng = random.Random(rng_seed)
    L = layout()
    lo, hi = L.bounds(tname)
    vs = set()
    for a, b in L.types[tname]["valid"]:
        vs |= {a - 1, a, a + 1, b - 1, b, b + 1}
    vs |= {rng.randint(lo, hi) for _ in range(48)} | {lo, hi}
    return sorted(v for v in vs if lo <= v <= hi)


def check_one(case):
    res = Result()
    if case["input"].get("mode") == "cc-arg":
        return check_cc_arg(case, res)
    w = common.run_world(case, res)
    # types declared during the history (sim/dyntypes.py): every 40-th run or so, derived from the case so that a replay needs nothing else
    if int(__import__("hashlib").sha256(repr(sorted((t_["id"], t_.get("data", "")[:48]) for t_ in case["tasks"])).encode()).hexdigest()[:6], 16) % 150 == 0:
        from .. import dyntypes
        seed_ = int(__import__("hashlib").sha256(repr([t_.get("data", "")[:48] for t_ in case["tasks"]]).encode()).hexdigest()[6:12], 16)
        res.count("types-declared-during-the-history")
        for msg_ in dyntypes.run("C04", seed_):
            res.v("C04.D", "C04.D:declared-later", "a type declared during the history (template seed %d): %s" % (seed_, msg_))
            break
    t, data, o = common.main_ref(case, w)
    if o.unspecified:
        res.count("skipped:unspecified")
        return res
    m = oracle.match_strict(t, o, data)
    common.count_faults(res, case, m.expected[0])
    res.count("rm:" + "|".join(m.expected))
    res.count("real:" + m.kind)
    label = case["input"]["label"]
    fk = "+".join(r["kind"] + ("" if r["kind"] != "value" else ":near" if r.get("near") else ":far") for r in case["faults"])
    if not ("value" in m.expected or m.kind == "value"):
        if m.expected == ("ok",) and m.kind == "ok":
            res.count("boundary-accepted")
            if not m.events_ok:
                res.v("C04.e", "C04.e:events:%s" % fk, "%s %s: accepted but %s" % (label, case["faults"], m.events_msg))
            res.nontrivial(t.spec["type"], t.spec.get("cc"), t.spec["data"])
        else:
            res.count("out-of-domain:%s/%s" % ("|".join(m.expected), m.kind))
        return res
    exp_s = "|".join(m.expected)
    ftype = case["faults"][0].get("type", "?")
    if m.kind.startswith("internal:"):
        res.count("cross:internal-error")
    elif m.kind == "ok":
        res.v("C04.a", "C04.a:accepted:%s" % ftype,
              "%s with %s: strict decode accepted an out-of-range value, reference expects %s" % (label, case["faults"], o.problem))
    elif m.expected == ("ok",):
        res.v("C04.e", "C04.e:rejected-valid:%s" % ftype,
              "%s with %s: raised %r but every value is allowed" % (label, case["faults"], t.exc_sum))
    elif not m.class_ok:
        res.v("C04.a", "C04.a:%s-instead-of-%s:%s" % (m.kind, exp_s, ftype),
              "%s with %s: raised %r, reference expects %s" % (label, case["faults"], t.exc_sum, o.problem))
    elif not m.details_ok:
        res.v("C04.b", "C04.b:%s" % ftype,
              "%s with %s: raised %r, reference expects %s" % (label, case["faults"], t.exc_sum, o.problem))
    else:
        # C04.c allowed set carried by the error
        a = m.alt
        vv = t.exc.constraint.valid_values
        bad = []
        for v in probe_values(a["type"], a["value"]):
            try:
                got = v in vv
            except Exception as e:   # membership itself must work
                got = "raised %s" % type(e).__name__
            if got != layout().valid(a["type"], v):
                bad.append((v, got))
        if bad:
            res.v("C04.c", "C04.c:%s" % a["type"], "%s: allowed set of %s disagrees with the layout at %s" % (label, a["type"], bad[:6]))
        res.count("allowed-set-probed")
    if m.class_ok and not m.events_ok:
        res.v("C04.d", "C04.d:%s" % ftype, "%s with %s: %s" % (label, case["faults"], m.events_msg))
    if len(case["faults"]) > 1:
        res.count("two-bad-fields")
    res.nontrivial(t.spec["type"], t.spec.get("cc"), t.spec["data"])
    return res


def check(case):
    if "variants" in case:
        return common.check_variants(case, check_one)
    return check_one(case)


def shrink(case):
    if "variants" in case:
        yield from common.shrink_variants(case)
        return
    yield from common.shrink_faults(case, ("main",))
    yield from common.shrink_tasks(case, {"main"})
    yield from common.shrink_buffers(case, ("main",))

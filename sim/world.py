"""The simulated world: byte sources, file objects, tasks (steppable pipelines over the real
generators), the seeded scheduler, and the recorded history.

Everything is driven by concrete, JSON-serialisable specs so that a replay file reproduces a run
without re-deriving anything from a PRNG:

  task spec   {"id", "front", "type", "data" (hex of the container bytes), "cc", "enc", "strict",
               "source", "chunks", "consumer", "cancel_at"}
  schedule    {"policy": "sequential"|"round_robin"|"list", "order": [task ids...],
               "preempt": {pull index(str) of task id -> [task ids to step inside that pull]}}
"""
import array
import hashlib

from . import real
from .watchdog import RunTimeout

SOURCE_KINDS = ("bytes", "bytearray", "list", "tuple", "memoryview", "array", "iter", "gen", "counting", "byteobjs")


class CountingSource:
    """Iterator over bytes that counts pulls, raises StopIteration (and counts it), and can call a
    hook inside a pull (pre-emption point owned by the scheduler)."""

    def __init__(self, data, hook=None):
        self.data = bytes(data)
        self.pulls = 0          # successful pulls
        self.stops = 0          # StopIteration raised
        self.calls = 0
        self.hook = hook

    def __iter__(self):
        return self

    def __next__(self):
        self.calls += 1
        if self.hook is not None:
            self.hook(self)
        if self.pulls >= len(self.data):
            self.stops += 1
            raise StopIteration
        b = self.data[self.pulls]
        self.pulls += 1
        return b


class SimFile:
    """file object with seeded short reads: .mode and .read() are all bytes_from_files needs"""

    def __init__(self, data, chunks, mode="rb"):
        self.data = bytes(data)
        self.chunks = list(chunks) or [len(self.data) or 1]
        self.mode = mode
        self.pos = 0
        self.reads = 0
        self.i = 0

    def read(self, n=-1):
        self.reads += 1
        if self.pos >= len(self.data):
            return b""
        c = self.chunks[self.i % len(self.chunks)]
        self.i += 1
        c = max(1, c)
        out = self.data[self.pos:self.pos + c]
        self.pos += len(out)
        return out


class Growing:
    def __init__(self, data, margin):
        self.data = bytes(data)
        self.margin = max(16, margin)
        self.buf = bytearray(self.data[:self.margin])
        self.grown = 0

    def ensure(self, upto):
        """make at least data[:upto + margin] available"""
        want = min(len(self.data), upto + self.margin)
        if want > len(self.buf):
            self.buf += self.data[len(self.buf):want]
            self.grown += 1


def make_source(kind, data, chunks=None, hook=None):
    """returns (iterable for the decoder, counter object or None)"""
    data = bytes(data)
    if kind == "bytes":
        return data, None
    if kind == "bytearray":
        return bytearray(data), None
    if kind == "list":
        return list(data), None
    if kind == "tuple":
        return tuple(data), None
    if kind == "memoryview":
        return memoryview(data), None
    if kind == "array":
        return array.array("B", data), None
    if kind == "iter":
        return iter(data), None
    if kind == "gen":
        return (b for b in data), None
    if kind == "counting":
        src = CountingSource(data, hook)
        return src, src
    if kind == "byteobjs":
        # the decoder's own BYTE values (a buffer taken from one decode and fed into another): items with __index__ only
        from tpmstream.spec.structures.base_types import BYTE
        return [BYTE(b) for b in data], None
    if kind == "realfile":
        # a real buffered file that has an I/O history when it is handed over: sniffed with peek() or read()+seek(0)
        import os
        import tempfile
        from tpmstream.io import bytes_from_files
        fd, path = tempfile.mkstemp(prefix="verif-src-")
        try:
            os.write(fd, data)
        finally:
            os.close(fd)
        f = open(path, "rb")
        os.unlink(path)
        how = (chunks or [0])[0] % 3
        if how == 0:
            f.peek(2)
        elif how == 1:
            f.read(2)
            f.seek(0)
        def closing(gen, fobj):
            try:
                yield from gen
            finally:
                fobj.close()
        return closing(bytes_from_files([f]), f), None
    if kind == "growing":
        # a live source: a bytearray the producer keeps appending to while the decoder is running.  The simulator keeps it
        # a comfortable margin ahead of what the emitted fields account for (see Task._grow); a decoder that pulls byte by
        # byte never reaches the current end before the input is complete, one that takes a snapshot does
        g = Growing(data, (chunks or [64])[0])
        return g.buf, g
    if kind == "simfile":
        from tpmstream.io import bytes_from_files
        # split the data over 1..n files at the points given by negative chunk entries
        files, cur, plan = [], 0, []
        parts = chunks or [len(data) or 1]
        f = SimFile(data, parts)
        return bytes_from_files([f]), f
    if kind == "simfile_text":
        from tpmstream.io import bytes_from_files
        # a file opened in text mode ("r", what sys.stdin is): bytes_from_files must go to its .buffer
        f = SimFile(data, chunks or [len(data) or 1])

        class _Text:
            mode = "r"
            buffer = f

            def read(self, *a):
                raise AssertionError("text-mode read() must not be used for binary input")
        return bytes_from_files([_Text()]), f
    if kind == "simfiles":
        from tpmstream.io import bytes_from_files
        cuts = sorted(set(c for c in (chunks or []) if 0 <= c <= len(data)))
        pieces, prev = [], 0
        for c in cuts + [len(data)]:
            pieces.append(data[prev:c])
            prev = c
        fs = [SimFile(p, [max(1, len(p) // 2 or 1)]) for p in pieces]
        return bytes_from_files(fs), None
    raise ValueError(kind)


class Task:
    """A steppable pipeline: byte source -> front-end/decoder [-> consumer]."""

    def __init__(self, spec, hook=None):
        self.spec = spec
        self.id = spec["id"]
        self.done = False
        self.cancelled = False
        self.events = []        # real event objects emitted by the decoder stage
        self.items = []         # comparable items, summarised at emission time
        self.pulls_at = []      # source.pulls when each event was emitted (counting sources)
        self.out = []           # what the consumer stage produced (lines / chunks)
        self.exc = None
        self.exc_sum = None
        self.remaining = None
        self.site = None
        self.value = None       # return value of the decoder generator (the object)
        self.steps = 0
        self.calls_at_end = None
        self.decoder_raised = False
        data = bytes.fromhex(spec["data"])
        self.n_input = len(data)
        buf, self.counter = make_source(spec.get("source", "bytes"), data, spec.get("chunks"), hook)
        self._grow_i, self._grow_bytes, self._grow_ends = 0, 0, None
        if spec.get("kind") == "api-noise":
            # not a decode: a step of calls into public helpers of the library (see real.api_noise)
            self.n_input, self.counter, self.root = 0, None, ""

            def noise():
                real.api_noise(spec["seed"])
                return
                yield
            self.decoder = self.gen = self.top = noise()
            return
        self.root = spec.get("root_path") or ""      # caller-chosen root path; items and error summaries are relative to it
        self.decoder = real.marshal(spec.get("front", "binary"), spec["type"], buf,
                                    cc=self._cc(spec.get("cc")), enc=spec.get("enc"),
                                    strict=spec.get("strict", True), root=self.root)
        self.gen = self._tee()
        consumer = spec.get("consumer")
        if consumer == "pretty":
            from tpmstream.io.pretty import Pretty
            self.top = Pretty.unmarshal(self.gen)
        elif consumer == "events":
            from tpmstream.io.events import Events
            self.top = Events.unmarshal(self.gen)
        elif consumer == "binary":
            from tpmstream.io.binary import Binary
            self.top = Binary.unmarshal(self.gen)
        else:
            self.top = self.gen

    @staticmethod
    def _cc(cc):
        if cc is None:
            return None
        from tpmstream.spec.structures.constants import TPM_CC
        return TPM_CC(cc)

    def _tee(self):
        """records the decoder's events (and its return value) whoever consumes them"""
        self.value = yield from self._record(self.decoder)

    def _record(self, g):
        while True:
            try:
                e = next(g)
            except StopIteration as s:
                return s.value
            except BaseException:
                self.decoder_raised = True      # the exception comes from the decoder stage, not from a consumer
                raise
            self.events.append(e)
            self.items.append(real.ev_item(e, self.root))
            self.pulls_at.append(self.counter.pulls if isinstance(self.counter, CountingSource) else
                                 (self.counter.pos if isinstance(self.counter, SimFile) else None))
            yield e

    def _grow(self):
        """live source: append what the producer has delivered meanwhile (a margin beyond the fields emitted so far)"""
        g = self.counter
        from .tiling import width_and_bytes
        while self._grow_i < len(self.items):
            it = self.items[self._grow_i]
            if it[0] == "P":
                self._grow_bytes += width_and_bytes(it, self.events[self._grow_i])[0] or 0
            self._grow_i += 1
        if self.spec.get("front", "binary") == "binary":
            g.ensure(self._grow_bytes)
        else:
            if self._grow_ends is None:
                from . import medium
                self._grow_ends = medium.ref_hex_pair_ends(g.data)
            j = self._grow_bytes + 8
            g.ensure(self._grow_ends[j] if j < len(self._grow_ends) else len(g.data))

    def step(self):
        """one next() on the top generator; returns False when the task is finished"""
        if self.done:
            return False
        self.steps += 1
        if isinstance(self.counter, Growing):
            self._grow()
        try:
            if self.spec.get("in_except"):
                # the caller drives the decode from inside an exception handler (strict first, warn mode as a fallback)
                try:
                    raise LookupError("caller is handling this")
                except LookupError:
                    o = next(self.top)
            else:
                o = next(self.top)
            if self.top is not self.gen:
                self.out.append(o)
            return True
        except StopIteration:
            self.done = True
            if isinstance(self.counter, CountingSource):
                self.calls_at_end = (self.counter.pulls, self.counter.calls, self.counter.stops)
        except BaseException as e:  # noqa: recorded, classified by the oracles
            if isinstance(e, (KeyboardInterrupt, SystemExit, MemoryError, RunTimeout)):
                raise
            self.done = True
            self.exc = e
            if isinstance(self.counter, CountingSource):
                self.calls_at_end = (self.counter.pulls, self.counter.calls, self.counter.stops)
            if int(self.spec.get("data", "0")[-2:] or "0", 16) % 2 == 0:
                # what callers do with an error before they look at its remaining bytes: compare, hash, print
                try:
                    e == e, e != None, e == ValueError("x"), hash(e), repr(e), str(e)  # noqa: E711
                except Exception:
                    pass
            rem = getattr(e, "bytes_remaining", None)
            try:
                self.remaining = None if rem is None else bytes(rem)
            except Exception as e2:
                self.remaining = None
            self.exc_sum = real.errsum(e, root=self.root)
            self.site = real.raise_site(e)
        return False

    def cancel(self):
        if not self.done:
            self.top.close()
            self.done = True
            self.cancelled = True

    def run(self, cap=None):
        n = 0
        while self.step():
            n += 1
            if cap is not None and n > cap:
                self.done = True
                self.exc_sum = ("StepCapExceeded", cap)
                break
        return self

    def outcome(self):
        """('ok',) | ('raise', summary) - what escaped"""
        if self.exc_sum is None:
            return ("ok",)
        return ("raise",) + tuple(self.exc_sum)


def step_cap(n_input):
    return 64 * (n_input + 16)


class World:
    """tasks + schedule -> history.  The history is the list of (seq, task id, nested) steps."""

    def __init__(self, task_specs, schedule=None):
        self.schedule = schedule or {"policy": "sequential"}
        self.history = []
        self.seq = 0
        self.preempt = {}
        for k, v in (self.schedule.get("preempt") or {}).items():
            tid, pull = k.split("@")
            self.preempt[(tid, int(pull))] = list(v)
        self.tasks = {}
        self.order = []
        self.running = None
        self.nested = False
        for spec in task_specs:
            hook = self._hook_for(spec["id"]) if spec.get("source") == "counting" else None
            t = Task(spec, hook)
            self.tasks[t.id] = t
            self.order.append(t.id)

    def _hook_for(self, tid):
        def hook(src):
            # pre-emption inside a pull: nesting depth 1, never re-enter a generator that is executing
            if self.running != tid or self.nested:
                return
            others = self.preempt.get((tid, src.calls))
            if not others:
                return
            outer = self.running
            self.nested = True
            try:
                for oid in others:
                    t = self.tasks.get(oid)
                    if t is None or t.done or oid == outer:
                        continue
                    self.running = oid
                    self._record(oid, True)
                    t.step()
            finally:
                self.nested = False
                self.running = outer
        return hook

    def _record(self, tid, nested):
        self.seq += 1
        self.history.append((self.seq, tid, nested))

    def _step(self, tid):
        t = self.tasks[tid]
        if t.done:
            return False
        ca = t.spec.get("cancel_at")
        if ca is not None and t.steps >= ca:
            t.cancel()
            self._record(tid + "!cancel", False)
            return False
        if t.steps > step_cap(t.n_input):
            t.done = True
            t.exc_sum = ("StepCapExceeded", step_cap(t.n_input))
            return False
        self.running = tid
        self._record(tid, False)
        r = t.step()
        self.running = None
        return r

    def run(self):
        pol = self.schedule.get("policy", "sequential")
        if pol == "sequential":
            for tid in self.schedule.get("order") or self.order:
                while self._step(tid):
                    pass
        elif pol == "round_robin":
            live = list(self.order)
            while live:
                live = [tid for tid in live if self._step(tid)]
        elif pol == "list":
            for tid in self.schedule["order"]:
                self._step(tid)
        # whatever is left runs to completion in declaration order
        for tid in self.order:
            while self._step(tid):
                pass
        return self

    def digest(self):
        h = hashlib.sha256()
        for s in self.history:
            h.update(repr(s).encode())
        for tid in self.order:
            t = self.tasks[tid]
            h.update(repr((tid, t.items, t.outcome(), t.out if all(isinstance(o, (str, bytes)) for o in t.out) else None)).encode())
        return h.hexdigest()[:16]

    def schedule_digest(self):
        h = hashlib.sha256()
        for s in self.history:
            h.update(repr(s[1:]).encode())
        return h.hexdigest()[:16]


def make_schedule(rng, task_ids, step_estimates, policy=None, counting_ids=()):
    """draws a concrete schedule (a list, so that a replay needs no PRNG)"""
    policy = policy or rng.choice(("sequential", "sequential", "round_robin", "random", "bursty", "pull_preempt"))
    ids = list(task_ids)
    if policy == "sequential":
        order = ids[:]
        rng.shuffle(order)
        return {"policy": "sequential", "order": order}
    if policy == "round_robin":
        return {"policy": "round_robin"}
    budget = {tid: step_estimates.get(tid, 50) + 2 for tid in ids}
    order = []
    if policy in ("random", "pull_preempt"):
        pool = [tid for tid in ids for _ in range(budget[tid])]
        rng.shuffle(pool)
        order = pool
    else:  # bursty
        left = dict(budget)
        while left:
            tid = rng.choice(sorted(left))
            run = min(left[tid], 1 + int(rng.expovariate(1 / 6.0)))
            order += [tid] * run
            left[tid] -= run
            if left[tid] <= 0:
                del left[tid]
    sched = {"policy": "list", "order": order}
    if policy == "pull_preempt" and counting_ids:
        pre = {}
        others = [t for t in ids]
        for tid in counting_ids:
            n = step_estimates.get(tid + "#bytes", 20)
            for _ in range(rng.randint(1, 6)):
                pull = rng.randint(1, max(1, n + 1))
                k = rng.randint(1, 4)
                pre["%s@%d" % (tid, pull)] = [rng.choice(others) for _ in range(k)]
        sched["preempt"] = pre
    return sched

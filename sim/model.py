"""Reference interpreter (RM): a small, table-driven, non-streaming TPM 2.0 wire decoder.

Written from the property statements and the TPM 2.0 layout rules; shares no code with tpmstream
and reads only the pinned layout snapshot.  For (root, bytes, command_code, encrypted_flag) it
produces the expected items in wire order, the log of sized regions, and the first problem in wire
order as a *set of admissible reports* (DESIGN.md section 4.2).

Items:
  ("S", path, type_desc, fieldsig_or_None)            structure / list / absent-placeholder event
  ("P", path, type_name, value, offset, width, valid) primitive event
"""
from .layout import (ATTR_DECRYPT, ATTR_ENCRYPT, ENC_TPM2B, TAG_SESSIONS, disp, layout, tdesc)

STREAM = "CommandResponseStream"


class _Stop(Exception):
    def __init__(self, alts):
        self.alts = alts


class Region:
    __slots__ = ("path", "max", "already", "start", "closed", "kind")

    def __init__(self, path, kind, start):
        self.path = path          # path of the size field that governs the region
        self.kind = kind          # commandSize / responseSize / authSize / parameterSize / tpm2b
        self.max = None           # declared size, None until the size field was read
        self.already = 0
        self.start = start        # offset of the first counted byte
        self.closed = False


class Outcome:
    """Result of a reference decode."""

    def __init__(self):
        self.items = []
        self.problem = None       # None or list of admissible alternatives (dicts)
        self.lo = None            # admissible number of emitted events: lo <= n <= hi
        self.hi = None
        self.notes = []           # lenient mode: (item index, path, type, value) of invalid values
        self.regions = []         # every region ever opened (Region objects), in opening order
        self.sizefields = []      # (item index, region index)
        self.counts = []          # item indices of list-count fields
        self.selectors = []       # item indices of union selector fields
        self.tags = []            # item indices of tag fields
        self.rcs = []             # item indices of responseCode fields
        self.attrs = []           # item indices of sessionAttributes fields
        self.ccs = []             # item indices of commandCode fields
        self.boundaries = [0]     # message boundaries (offsets) of a stream
        self.msgs = []            # per message: dict(kind, start, end, cc, enc, item_lo, item_hi)
        self.consumed = 0         # offset after the last consumed byte when decoding ended
        self.unspecified = None   # reason string if the outcome is unspecified (relaxation 4)
        self.unknowable = None    # lenient: reason why the layout became unknowable
        self.max_depth = 0        # maximum number of simultaneously open sized regions
        self.last_cc = None

    @property
    def ok(self):
        return self.problem is None

    def prims(self):
        return [it for it in self.items if it[0] == "P"]


class RM:
    def __init__(self, data, lenient=False, lay=None):
        self.L = lay or layout()
        self.data = bytes(data)
        self.lenient = lenient
        self.off = 0
        self.out = Outcome()
        self.open = []            # open regions, outermost first
        self.cc_complete = None   # most recent completely decoded commandCode (Command / stream)

    # ---- emission -----------------------------------------------------------------------
    def _S(self, path, td, sig=None):
        self.out.items.append(("S", path, td, sig))

    def _last_prim_index(self):
        items = self.out.items
        for i in range(len(items) - 1, -1, -1):
            if items[i][0] == "P":
                return i
        return -1

    def _stop(self, alts, lo, hi):
        self.out.problem = alts
        self.out.lo = lo
        self.out.hi = hi
        raise _Stop(alts)

    # ---- regions ------------------------------------------------------------------------
    def _open(self, path, kind):
        r = Region(path, kind, self.off)
        self.open.append(r)
        self.out.regions.append(r)
        self.out.max_depth = max(self.out.max_depth, len(self.open))
        return r

    def _set(self, r, value, size_item_index):
        """size field read: declare the region's size and anticipate overruns of enclosing regions"""
        r.max = value
        self.out.sizefields.append((size_item_index, self.out.regions.index(r)))
        alts = []
        for o in self.open:
            if o is r or o.closed or o.max is None:
                continue
            if o.already + value > o.max:
                alts.append(dict(kind="anticipated", cpath=o.path, limit=o.max, already=o.already,
                                 vpath=r.path, vvalue=value, by=o.already + value - o.max,
                                 consumed=0, rem_off=self.off))
        if alts:
            n = len(self.out.items)
            self._stop(alts, n, n)

    def _close(self, r):
        r.closed = True
        if r in self.open:
            self.open.remove(r)
        if r.already != r.max:
            n = len(self.out.items)
            self._stop([dict(kind="subceeded", cpath=r.path, limit=r.max, already=r.already,
                             consumed=0, rem_off=self.off)], self._last_prim_index() + 1, n)

    # ---- primitives ---------------------------------------------------------------------
    def prim(self, tname, path):
        size, signed, _ = self.L.prim(tname)
        p = self.off
        n = len(self.out.items)
        lo = self._last_prim_index() + 1
        # (a) would the field cross the end of an open region?
        alts = []
        for r in self.open:
            if r.max is not None and r.already + size > r.max:
                skip = max(0, r.max - r.already)
                if p + skip > len(self.data):
                    alts.append(dict(kind="depleted", cc=self.cc_complete))
                    alts.append(dict(kind="exceeded", cpath=r.path, limit=r.max, already=r.already,
                                     vpath=path, by=r.already + size - r.max,
                                     consumed=len(self.data) - p, rem_off=len(self.data)))
                else:
                    alts.append(dict(kind="exceeded", cpath=r.path, limit=r.max, already=r.already,
                                     vpath=path, by=r.already + size - r.max,
                                     consumed=skip, rem_off=p + skip))
        if alts:
            self._stop(alts, lo, n)
        # (b) are its bytes there?
        if p + size > len(self.data):
            self.out.consumed = len(self.data)
            self._stop([dict(kind="depleted", cc=self.cc_complete)], lo, n)
        for r in self.open:
            r.already += size
        value = int.from_bytes(self.data[p:p + size], "big", signed=signed)
        self.off = p + size
        self.out.consumed = self.off
        valid = self.L.valid(tname, value)
        # (c) is the value allowed?
        if not valid and not self.lenient:
            self._stop([dict(kind="value", path=path, type=tname, value=value,
                             consumed=size, rem_off=self.off, off=p, width=size)], lo, n)
        self.out.items.append(("P", path, tname, value, p, size, valid))
        if not valid:
            self.out.notes.append((n, path, tname, value))
        return value

    # ---- generic walkers ----------------------------------------------------------------
    def any(self, t, path, selector=None, count=None, enc=False):
        """t is a type name or {"list": elem}"""
        if isinstance(t, dict):
            return self.array(t["list"], path, count)
        k = self.L.kind(t)
        if k == "prim":
            return self.prim(t, path)
        if k == "tpm2b":
            return self.tpm2b(t, path)
        if k == "union":
            return self.union(t, path, selector)
        return self.struct(t, path, enc=enc)

    def array(self, elem, path, count):
        self._S(path, "list[%s]" % elem)
        for i in range(count):
            self.any(elem, "%s[%d]" % (path, i))

    def struct(self, tname, path, enc=False):
        t = self.L.types[tname]
        fl = self.L.fields(tname, enc)
        self._S(path, disp(tname), self.L.fieldsig(tname, enc))
        selectors = t.get("selectors", {})
        sel_fields = set(selectors.values())
        vals = {}
        last_nonlist = None
        for i, f in enumerate(fl):
            ft = f["type"]
            fpath = path + "." + f["name"]
            if isinstance(ft, dict):
                if i > 0 and not isinstance(fl[i - 1]["type"], dict):
                    self.out.counts.append(self._last_prim_index())      # (a list behind a list shares that count)
                self.array(ft["list"], fpath, last_nonlist)
            elif f["name"] in selectors:
                self.union(ft, fpath, vals[selectors[f["name"]]])
            else:
                v = self.any(ft, fpath)
                vals[f["name"]] = v
                last_nonlist = v
                if f["name"] in sel_fields:
                    self.out.selectors.append(len(self.out.items) - 1)
                if f["name"] == "sessionAttributes":
                    self.out.attrs.append(len(self.out.items) - 1)
        return vals

    def tpm2b(self, tname, path):
        fl = self.L.types[tname]["fields"]
        self._S(path, tname, self.L.fieldsig(tname))
        sf, bf = fl
        spath = path + "." + sf["name"]
        size = self.prim(sf["type"], spath)
        r = self._open(spath, "tpm2b")
        r.start = self.off
        self._set(r, size, len(self.out.items) - 1)
        bpath = path + "." + bf["name"]
        if isinstance(bf["type"], dict):
            self.array(bf["type"]["list"], bpath, size)
        elif size == 0:
            self._S(bpath, bf["type"], self._sig(bf["type"]))
        else:
            self.any(bf["type"], bpath)
        self._close(r)

    def _sig(self, tname):
        if self.L.kind(tname) == "prim":
            return None
        return self.L.fieldsig(tname)

    def union(self, tname, path, selector):
        self._S(path, tname, self.L.fieldsig(tname))
        member = self.L.union_select(tname, selector)
        if member is None:
            self.out.unknowable = "selector %r selects no member of %s at %s" % (selector, tname, path)
            n = len(self.out.items)
            self._stop([dict(kind="noselect", path=path, type=tname, value=selector,
                             consumed=0, rem_off=self.off)], self._last_prim_index() + 1, n)
        mt = self.L.union_member_type(tname, member)
        if mt is None:
            return
        mpath = path + "." + member
        if isinstance(mt, dict):
            self.array(mt["list"], mpath, self.L.types[tname]["list_size"][member])
        else:
            self.any(mt, mpath)

    # ---- framing ------------------------------------------------------------------------
    def command(self, path=""):
        m = dict(kind="command", start=self.off, item_lo=len(self.out.items), cc=None, enc=False,
                 resp_enc=False)
        self.out.msgs.append(m)
        self._S(path, "Command")
        cmd = self._open(path + ".commandSize", "commandSize")
        tag = self.prim("TPMI_ST_COMMAND_TAG", path + ".tag")
        self.out.tags.append(len(self.out.items) - 1)
        size = self.prim("UINT32", path + ".commandSize")
        self._set(cmd, size, len(self.out.items) - 1)
        cc = self.prim("TPM_CC", path + ".commandCode")
        self.out.ccs.append(len(self.out.items) - 1)
        if cc not in self.L.commands:
            self.out.unknowable = "unknown command code 0x%x" % cc
            n = len(self.out.items)
            self._stop([dict(kind="value", path=path + ".commandCode", type="TPM_CC", value=cc,
                             consumed=0, rem_off=self.off, late=True)], n, n)
        self.cc_complete = cc
        m["cc"] = cc
        c = self.L.commands[cc]
        self.struct(c["cmd_handles"], path + ".handles")
        enc = False
        if tag == TAG_SESSIONS:
            asize = self.prim("UINT32", path + ".authSize")
            auth = self._open(path + ".authSize", "authSize")
            auth.start = self.off
            self._set(auth, asize, len(self.out.items) - 1)
            self._S(path + ".authorizationArea", "list[TPMS_AUTH_COMMAND]")
            i = 0
            while auth.already < auth.max:
                vals = self.struct("TPMS_AUTH_COMMAND", "%s.authorizationArea[%d]" % (path, i))
                if vals["sessionAttributes"] & ATTR_DECRYPT:
                    enc = True
                if vals["sessionAttributes"] & ATTR_ENCRYPT:
                    m["resp_enc"] = True
                i += 1
            self._close(auth)
        m["enc"] = enc
        if enc and not self.L.first_param_is_tpm2b(c["cmd_params"]):
            self.out.unspecified = "decrypt session on command %s without a size-prefixed first parameter" % c["name"]
            raise _Stop(None)
        self.struct(c["cmd_params"], path + ".parameters", enc=enc)
        self._close(cmd)
        m["end"] = self.off
        m["item_hi"] = len(self.out.items)
        return m

    def response(self, cc, enc, path=""):
        enc = bool(enc)
        m = dict(kind="response", start=self.off, item_lo=len(self.out.items), cc=cc, enc=enc)
        self.out.msgs.append(m)
        self._S(path, "Response")
        rsp = self._open(path + ".responseSize", "responseSize")
        tag = self.prim("TPM_ST", path + ".tag")
        self.out.tags.append(len(self.out.items) - 1)
        size = self.prim("UINT32", path + ".responseSize")
        self._set(rsp, size, len(self.out.items) - 1)
        rc = self.prim("TPM_RC", path + ".responseCode")
        self.out.rcs.append(len(self.out.items) - 1)
        m["rc"] = rc
        if rc == 0:
            c = self.L.commands[cc]
            self.struct(c["rsp_handles"], path + ".handles")
            par = None
            if tag == TAG_SESSIONS:
                psize = self.prim("UINT32", path + ".parameterSize")
                par = self._open(path + ".parameterSize", "parameterSize")
                par.start = self.off
                self._set(par, psize, len(self.out.items) - 1)
            if enc and not self.L.first_param_is_tpm2b(c["rsp_params"]):
                self.out.unspecified = "encrypted response of %s without a size-prefixed first parameter" % c["name"]
                raise _Stop(None)
            self.struct(c["rsp_params"], path + ".parameters", enc=enc)
            if tag == TAG_SESSIONS:
                self._close(par)
                self._S(path + ".authorizationArea", "list[TPMS_AUTH_RESPONSE]")
                i = 0
                seen = False
                while rsp.already < rsp.max:
                    vals = self.struct("TPMS_AUTH_RESPONSE", "%s.authorizationArea[%d]" % (path, i))
                    if vals["sessionAttributes"] & ATTR_ENCRYPT:
                        seen = True
                    i += 1
                if seen != enc:
                    self.out.unspecified = "response session attributes contradict the encryption flag"
                    raise _Stop(None)
        self._close(rsp)
        m["end"] = self.off
        m["item_hi"] = len(self.out.items)
        return m

    def stream(self):
        while True:
            if self.off >= len(self.data):
                return
            m = self.command()
            self.out.boundaries.append(self.off)
            if self.off >= len(self.data):
                return
            self.response(m["cc"], m["resp_enc"])
            self.out.boundaries.append(self.off)

    # ---- entry --------------------------------------------------------------------------
    def run(self, root, cc=None, enc=None):
        out = self.out
        try:
            if root == STREAM:
                self.stream()
            elif root == "Command":
                self.command()
            elif root == "Response":
                self.response(cc, enc)
            else:
                self.any(root, "")
            if root != STREAM and self.off < len(self.data):
                n = len(out.items)
                self._stop([dict(kind="superfluous", rem_off=self.off, cc=self.cc_complete)], n, n)
        except _Stop:
            pass
        out.consumed = max(out.consumed, self.off)
        out.last_cc = self.cc_complete
        return out


def decode(root, data, cc=None, enc=None, lenient=False, lay=None):
    return RM(data, lenient=lenient, lay=lay).run(root, cc=cc, enc=enc)

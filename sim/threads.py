"""Deterministic OS-thread schedules: several decodes run in real threads, exactly one of them at a time (baton
passing), and the baton changes hands at *line events inside the tree under test* chosen by a seeded PRNG
(`sys.settrace`).  One seed is one exactly repeatable interleaving at line granularity - pre-emption between two
statements of library code, which generator stepping cannot produce.

Runs inside a fresh interpreter (sim/pristine.py), so that every lazily built table of the library is cold when the
threads start.  Nothing here judges anything: it returns what every thread saw, plus `==` comparisons of real event /
object values across threads (values cannot cross the process boundary).
"""
import json
import random
import sys
import threading


class CoopLock:
    """stands in for a module-level lock of the library while the baton scheduler runs: only one thread runs at a time, so
    the lock is never contended as long as the baton does not change hands while it is held - which is what `held` is for"""

    def __init__(self, real_lock, baton):
        self._real, self._baton = real_lock, baton

    def acquire(self, *a, **kw):
        r = self._real.acquire(*a, **kw)
        if r:
            self._baton.hold(+1)
        return r

    def release(self):
        self._baton.hold(-1)
        self._real.release()

    def __enter__(self):
        self.acquire()
        return self

    def __exit__(self, *a):
        self.release()
        return False


def adopt_locks(baton):
    """replace the lock objects found at module level of the library by cooperative stand-ins; returns an undo list"""
    lock_types = (type(threading.Lock()), type(threading.RLock()))
    undo = []
    for name, mod in list(sys.modules.items()):
        if not name.startswith("tpmstream") or mod is None:
            continue
        for attr, val in list(vars(mod).items()):
            if isinstance(val, lock_types):
                setattr(mod, attr, CoopLock(val, baton))
                undo.append((mod, attr, val))
    return undo


class Baton:
    def hold(self, d):
        i = self.index.get(threading.get_ident())
        if i is not None:
            self.held[i] = self.held.get(i, 0) + d

    def __init__(self, n, seed, mean_gap):
        self.index, self.held = {}, {}
        self.rng = random.Random(seed)
        self.n = n
        self.events = [threading.Event() for _ in range(n)]
        self.done = [False] * n
        self.current = None
        self.mean_gap = mean_gap
        self.countdown = self._gap()
        self.switches = 0
        self.lines = 0
        self.finished = threading.Event()

    def _gap(self):
        return 1 + int(self.rng.expovariate(1.0 / self.mean_gap))

    def start(self):
        self.current = self.rng.randrange(self.n)
        self.events[self.current].set()

    def _pick(self, me):
        live = [i for i in range(self.n) if not self.done[i] and i != me]
        return self.rng.choice(live) if live else None

    def line(self, me):
        """called by thread `me` at a line of library code; may hand the baton on and block until it comes back"""
        self.lines += 1
        self.countdown -= 1
        if self.countdown > 0 or self.held.get(me, 0) > 0:
            return
        self.countdown = self._gap()
        nxt = self._pick(me)
        if nxt is None:
            return
        self.switches += 1
        self.events[me].clear()
        self.current = nxt
        self.events[nxt].set()
        self.events[me].wait()

    def finish(self, me):
        self.done[me] = True
        nxt = self._pick(me)
        if nxt is None:
            self.finished.set()
        else:
            self.current = nxt
            self.events[nxt].set()


def _body(spec):
    """what one thread does: the decode, and the conversions / re-encoding a user would do with its result"""
    from tpmstream.common.object import events_to_obj, obj_to_events
    from tpmstream.io.binary import Binary
    from .world import Task
    t = Task(dict(spec, source="bytes")).run()
    out = {"task": t, "reenc": None, "conv": None}
    if t.exc_sum is None and spec.get("front", "binary") == "binary":
        try:
            out["reenc"] = b"".join(Binary.unmarshal(t.events)).hex()
        except Exception as e:
            out["reenc"] = "raised %s" % type(e).__name__
        if hasattr(t.value, "__dataclass_fields__") and spec["type"] != "CommandResponseStream":
            try:
                o2 = events_to_obj(t.events, command_code=t._cc(spec.get("cc")))
                out["conv"] = bool(o2 == t.value) and list(obj_to_events(t.value)) == t.events
            except Exception as e:
                out["conv"] = "raised %s" % type(e).__name__
    return out


def run(specs, seed, mean_gap=40, concat=None):
    """decode specs[i] in thread i under the seeded schedule; concat = (stream index, [message indices]) asks for the
    cross-thread comparison events(stream) == concatenation of events(messages)"""
    # imports happen here, in the main thread: a thread that is switched out in the middle of an import holds the import
    # lock, and the thread that gets the baton would block on it instead of on the baton
    import tpmstream.common.canonical  # noqa: F401
    import tpmstream.common.object  # noqa: F401
    import tpmstream.io.auto  # noqa: F401
    import tpmstream.io.events  # noqa: F401
    import tpmstream.io.pretty  # noqa: F401
    from . import real, world  # noqa: F401
    from .layout import layout
    real.types()
    layout()
    from . import synth
    synth.real_types()          # this machinery's own lazily built tables must not race either
    n = len(specs)
    baton = Baton(n, seed, mean_gap)
    results = [None] * n
    errors = [None] * n

    def worker(i):
        def tracer(frame, event, arg):
            if event == "call":
                return tracer if "/tpmstream/" in frame.f_code.co_filename else None
            if event == "line":
                baton.line(i)
            return tracer
        baton.events[i].wait()
        baton.index[threading.get_ident()] = i
        sys.settrace(tracer)
        try:
            results[i] = _body(specs[i])
        except BaseException as e:  # noqa - reported, not judged here
            errors[i] = "%s: %s" % (type(e).__name__, str(e)[:200])
        finally:
            sys.settrace(None)
            baton.finish(i)

    undo = adopt_locks(baton)
    threads = [threading.Thread(target=worker, args=(i,), daemon=True) for i in range(n)]
    for th in threads:
        th.start()
    baton.start()
    if not baton.finished.wait(600):
        return {"error": "threads did not finish (deadlock in the baton scheduler or a hang in the tree under test)"}
    for th in threads:
        th.join(5)
    for mod, attr, val in undo:
        setattr(mod, attr, val)
    out = {"results": [], "dups": [], "concat": None, "switches": baton.switches, "lines": baton.lines}
    for i in range(n):
        r = results[i]
        if r is None:
            out["results"].append({"items": None, "outcome": ["thread-raised", errors[i]], "reenc": None, "conv": None})
            continue
        t = r["task"]
        out["results"].append(json.loads(json.dumps({"items": t.items, "outcome": list(t.outcome()), "reenc": r["reenc"], "conv": r["conv"]}, default=str)))
    key = [json.dumps({k: v for k, v in s.items() if k != "id"}, sort_keys=True) for s in specs]
    for i in range(n):
        for j in range(i + 1, n):
            if key[i] == key[j] and results[i] is not None and results[j] is not None:
                a, b = results[i]["task"], results[j]["task"]
                out["dups"].append([i, j, bool(a.events == b.events), bool(a.value == b.value) if a.exc_sum is None and b.exc_sum is None else None])
    if concat is not None and all(results[k] is not None for k in [concat[0]] + list(concat[1])):
        st = results[concat[0]]["task"]
        cat = [e for k in concat[1] for e in results[k]["task"].events]
        out["concat"] = bool(st.events == cat)
    return out

"""Batch runner: seeded runs over a process pool, minimisation, replay files, known findings,
evidence.  One integer (VERIF_SEED) decides every run; wall-clock only decides how many of the
deterministic run list are executed.

Exit codes: 0 property held on everything explored (KNOWN-FINDING lines allowed), 1 violation with a
reproducing replay, 2 harness error (never reported as pass or as violation).
"""
import collections
import faulthandler
import hashlib
import importlib
import json
import multiprocessing
import os
import random
import signal
import subprocess
import sys
import time
import traceback
from concurrent.futures import ProcessPoolExecutor, as_completed

VERIF = os.path.dirname(os.path.dirname(os.path.abspath(__file__)))
DEFAULT_SEED = 20261004


from .watchdog import RunTimeout  # noqa: E402


class HarnessError(Exception):
    pass


class Violation:
    def __init__(self, clause, sig, msg, extra=None):
        self.clause = clause      # e.g. "C05.a"
        self.sig = sig            # identifies *what fails* (for dedupe / known findings)
        self.msg = msg
        self.extra = extra or {}

    def as_dict(self):
        return {"clause": self.clause, "sig": self.sig, "msg": self.msg, "extra": self.extra}


class Result:
    """what one checked case reports"""

    def __init__(self):
        self.violations = []
        self.stats = collections.Counter()
        self.keys = []            # digests of distinct non-trivial comparisons
        self.sched = None         # digest of the interleaving
        self.digest = None        # digest of the whole recorded history (determinism self-test)
        self.ctx = []             # fault contexts reached

    def v(self, clause, sig, msg, **extra):
        self.violations.append(Violation(clause, sig, msg, extra))

    def count(self, key, n=1):
        self.stats[key] += n

    def nontrivial(self, *parts):
        self.keys.append(hashlib.blake2b(repr(parts).encode(), digest_size=8).digest())


def run_seed(base, prop, tier, i):
    h = hashlib.sha256(("%d:%s:%s:%d" % (base, prop, tier, i)).encode()).digest()
    return int.from_bytes(h[:8], "big")


def load_prop(pid):
    return importlib.import_module("sim.props." + pid)


from . import watchdog  # noqa: E402
_arm = watchdog.arm


def guarded_check(mod, case, pid, seconds):
    """mod.check(case) under the watchdog; a timeout while the tree under test is executing is a violation
    ("does not terminate"), otherwise it propagates (harness error)"""
    watchdog.install()
    try:
        _arm(seconds)
        res = mod.check(case)
        _arm(0)
        return res
    except RunTimeout as e:
        _arm(0)
        if not e.inside:
            raise
        res = Result()
        clause, sig = watchdog.timeout_sig(pid, e)
        res.v(clause, sig, "the run did not finish within %ss of CPU time; the watchdog fired inside the tree under test (%s): does not terminate" % (seconds, e.site))
        return res
    finally:
        _arm(0)


def _worker(args):
    pid, tier, base, start, stride, n_total, deadline, run_timeout = args[:8]
    skip = args[8] if len(args) > 8 else ()      # run indices that have a worker of their own (minutes-long runs)
    faulthandler.enable()
    mod = load_prop(pid)
    # the per-run limit counts CPU time of this process (ITIMER_PROF), so a loaded machine does not turn into timeouts;
    # a generous wall-clock limit (ITIMER_REAL) stays as a backstop against blocking
    watchdog.install()
    stats = collections.Counter()
    keys = set()
    scheds = set()
    ctxs = set()
    viols = []
    harness = []
    samples = []
    done = 0
    i = start
    while i < n_total:
        if i in skip:
            i += stride
            continue
        if time.time() > deadline:
            stats["__truncated"] += 1
            break
        seed = run_seed(base, pid, tier, i)
        rng = random.Random(seed)
        case = None
        try:
            _arm(run_timeout)
            case = mod.make_case(i, rng, tier)
            if case is None:
                _arm(0)
                i += stride
                continue
            case["_run"] = {"index": i, "seed": seed, "start": start, "stride": stride, "tier": tier, "base": base}
            res = mod.check(case)
            _arm(0)
        except RunTimeout as e:
            _arm(0)
            if e.inside and case is not None:
                # the tree under test was executing when the CPU-time limit was reached: it does not terminate
                res = Result()
                clause, sig = watchdog.timeout_sig(pid, e)
                res.v(clause, sig, "the run did not finish within %ss of CPU time; the watchdog fired inside the tree under test (%s): does not terminate" % (run_timeout, e.site))
            else:
                harness.append({"index": i, "seed": seed, "error": "run timeout (watchdog fired in %s)" % e.site, "case": _strip(case)})
                i += stride
                continue
        except Exception:
            _arm(0)
            harness.append({"index": i, "seed": seed, "error": traceback.format_exc(), "case": _strip(case)})
            i += stride
            continue
        done += 1
        stats.update(res.stats)
        keys.update(res.keys)
        if res.sched:
            scheds.add(res.sched)
        ctxs.update(res.ctx)
        if res.violations and len(viols) < 400:
            viols.append({"case": case, "violations": [v.as_dict() for v in res.violations]})
        if len(samples) < 2 and (start < 4):
            samples.append(_strip(case))
        i += stride
    watchdog.uninstall()
    return {"done": done, "stats": stats, "keys": keys, "scheds": scheds, "ctxs": ctxs, "viols": viols,
            "harness": harness[:5], "n_harness": len(harness), "samples": samples}


def _strip(case, limit=600):
    """abbreviated, JSON-safe copy for evidence samples"""
    if case is None:
        return None

    def cut(x):
        if isinstance(x, str) and len(x) > limit:
            return x[:limit] + "...(%d chars)" % len(x)
        if isinstance(x, list):
            return [cut(y) for y in x[:12]] + (["...(%d items)" % len(x)] if len(x) > 12 else [])
        if isinstance(x, dict):
            return {k: cut(v) for k, v in x.items()}
        return x
    return cut(case)


def _digest_worker(args):
    pid, tier, base, idxs = args
    mod = load_prop(pid)
    out = {}
    for i in idxs:
        seed = run_seed(base, pid, tier, i)
        rng = random.Random(seed)
        try:
            case = mod.make_case(i, rng, tier)
            if case is None:
                out[i] = "none"
                continue
            res = mod.check(dict(case, _run={"index": i, "seed": seed, "tier": tier, "base": base}))
            h = hashlib.sha256(json.dumps(case, sort_keys=True, default=str).encode())
            h.update(repr((res.digest, res.sched, sorted((v.clause, v.sig, v.msg) for v in res.violations),
                           sorted((k, v) for k, v in res.stats.items() if not k.startswith("hist:")), sorted(res.keys))).encode())
            out[i] = h.hexdigest()[:20]
        except Exception as e:
            out[i] = "EXC:%s:%s" % (type(e).__name__, str(e)[:80])
    return out


def digests(pid, tier, lo, hi, jobs):
    """history digests of runs lo..hi-1 (for the determinism self-test)"""
    base = int(os.environ.get("VERIF_SEED", DEFAULT_SEED))
    idxs = list(range(lo, hi))
    if jobs <= 1:
        return _digest_worker((pid, tier, base, idxs))
    ctx = multiprocessing.get_context("fork")
    out = {}
    with ProcessPoolExecutor(max_workers=jobs, mp_context=ctx) as ex:
        for r in ex.map(_digest_worker, [(pid, tier, base, idxs[k::jobs]) for k in range(jobs)]):
            out.update(r)
    return out


def load_known():
    p = os.path.join(VERIF, "known_findings.json")
    if not os.path.exists(p):
        return []
    with open(p) as f:
        return json.load(f).get("findings", [])


def match_known(known, pid, sig):
    import re
    for k in known:
        if k.get("status") != "known" or k.get("property") != pid:
            continue
        if re.fullmatch(k["signature"], sig):
            return k
    return None


def minimise(mod, case, clause, sig, budget_s=60):
    """greedy shrinking: accept a candidate only if the same clause with the same signature fails"""
    def fails(c):
        try:
            r = guarded_check(mod, c, clause.split(".")[0], 30)
        except (Exception, RunTimeout):
            return False
        return any(v.clause == clause and v.sig == sig for v in r.violations)

    if not hasattr(mod, "shrink"):
        return case
    t0 = time.time()
    improved = True
    rounds = 0
    while improved and time.time() - t0 < budget_s:
        improved = False
        rounds += 1
        for cand in mod.shrink(case):
            if time.time() - t0 > budget_s:
                break
            if fails(cand):
                cand["_run"] = case.get("_run")
                case = cand
                improved = True
                break
    return case


def case_digest(case):
    c = {k: v for k, v in case.items() if not k.startswith("_")}
    return hashlib.sha256(json.dumps(c, sort_keys=True).encode()).hexdigest()[:12]


def write_replay(pid, case, viol, replay_dir=None):
    d = replay_dir or os.path.join(VERIF, "replays")
    os.makedirs(d, exist_ok=True)
    seed = (case.get("_run") or {}).get("seed", 0)
    path = os.path.join(d, "%s-%s-%s.json" % (pid, seed, case_digest(case)))
    with open(path, "w") as f:
        json.dump({"property": pid, "clause": viol["clause"], "signature": viol["sig"],
                   "message": viol["msg"], "extra": viol.get("extra"), "case": case}, f, indent=1, sort_keys=True,
                  default=str)
    return path


def replay_file(pid, path):
    """run one replay file in this process; returns list of violation dicts"""
    mod = load_prop(pid)
    with open(path) as f:
        rp = json.load(f)
    if rp.get("history"):
        return rp, run_history(pid, rp["history"])
    res = guarded_check(mod, rp["case"], pid, mod.TIERS["quick"].get("run_timeout", 120))
    return rp, [v.as_dict() for v in res.violations]


def run_history(pid, hist):
    """re-execute a sequence of run indices in this (fresh) process; returns the violations of the last one.
    Used when a violation depends on what was decoded before in the same process (state leaking between decodes)."""
    mod = load_prop(pid)
    last = []
    for i in hist["indices"]:
        seed = run_seed(hist["base"], pid, hist["tier"], i)
        rng = random.Random(seed)
        try:
            case = mod.make_case(i, rng, hist["tier"])
            if case is None:
                continue
            case["_run"] = {"index": i, "seed": seed, "tier": hist["tier"], "base": hist["base"]}
            res = guarded_check(mod, case, pid, mod.TIERS["quick"].get("run_timeout", 120))
            last = [v.as_dict() for v in res.violations]
        except (Exception, RunTimeout):
            last = []
    return last


def history_replay(pid, case, v):
    """the single case does not reproduce in a fresh process: find a short suffix of the worker's run sequence
    that does, and write it as the replay file"""
    r = case.get("_run") or {}
    if "start" not in r:
        return None
    solo = getattr(load_prop(pid), "SOLO", {}).get(r.get("tier"), ())
    seq = [x for x in range(r["start"], r["index"] + 1, r["stride"]) if x not in solo or x == r["index"]]
    for m in (2, 3, 5, 9, 17, 33, 65, 129, 257, 513, 1025, 2049, 4097, len(seq)):
        if m > len(seq) and m != len(seq):
            m = len(seq)
        hist = {"base": r["base"], "tier": r["tier"], "indices": seq[-m:]}
        d = os.path.join(VERIF, "replays")
        os.makedirs(d, exist_ok=True)
        path = os.path.join(d, "%s-%s-history%d.json" % (pid, r["seed"], m))
        with open(path, "w") as f:
            json.dump({"property": pid, "clause": v["clause"], "signature": v["sig"], "message": v["msg"],
                       "history": hist, "case": case,
                       "note": "the violation depends on what was decoded before in the same process; the replay "
                               "re-executes these run indices in order in a fresh process"}, f, indent=1, sort_keys=True, default=str)
        ok, _ = confirm_in_fresh_process(pid, path)
        if ok:
            return path
        os.remove(path)
        if m == len(seq):
            break
    return None


def confirm_in_fresh_process(pid, path):
    """the replay must reproduce the same clause in a fresh interpreter"""
    env = dict(os.environ)
    try:
        p = subprocess.run([sys.executable, os.path.join(VERIF, "bin", "check"), pid, "--replay", path],
                           capture_output=True, text=True, env=env, timeout=900)
    except subprocess.TimeoutExpired:
        return False, "replay did not finish within 900 s"
    return p.returncode == 1, p.stdout + p.stderr


def main_check(pid, tier, runs=None, budget=None, jobs=None, replay=None, evidence=True):
    mod = load_prop(pid)
    base = int(os.environ.get("VERIF_SEED", DEFAULT_SEED))
    if replay:
        rp, viols = replay_file(pid, replay)
        same = [v for v in viols if v["clause"] == rp["clause"] and v["sig"] == rp["signature"]]
        if same:
            print("VIOLATION property=%s replay=%s" % (pid, replay))
            print("  clause=%s sig=%s" % (same[0]["clause"], same[0]["sig"]))
            print("  " + same[0]["msg"][:2000])
            return 1
        print("replay did not reproduce %s (%s); violations now: %s" % (rp["clause"], rp["signature"],
                                                                         [v["sig"] for v in viols]))
        return 0
    t0 = time.time()
    cfg = mod.TIERS[tier]
    n_total = runs or cfg["runs"]
    budget = budget or cfg["budget"]
    jobs = jobs or int(os.environ.get("VERIF_JOBS", "0")) or min(16, os.cpu_count() or 4)
    run_timeout = cfg.get("run_timeout", 120)
    deadline = t0 + budget
    ctx = multiprocessing.get_context("fork")
    agg = collections.Counter()
    keys, scheds, ctxs = set(), set(), set()
    viols, harness, samples = [], [], []
    done = n_harness = 0
    try:
        with ProcessPoolExecutor(max_workers=jobs + len([x for x in getattr(mod, "SOLO", {}).get(tier, ()) if x < n_total]), mp_context=ctx) as ex:
            solo = tuple(sorted(x for x in getattr(mod, "SOLO", {}).get(tier, ()) if x < n_total))
            futs = [ex.submit(_worker, (pid, tier, base, x, n_total, n_total, deadline, run_timeout)) for x in solo]
            futs += [ex.submit(_worker, (pid, tier, base, s, jobs, n_total, deadline, run_timeout, solo))
                     for s in range(jobs)]
            for f in as_completed(futs, timeout=budget + 600):
                r = f.result()
                done += r["done"]
                agg.update(r["stats"])
                keys |= r["keys"]
                scheds |= r["scheds"]
                ctxs |= r["ctxs"]
                viols += r["viols"]
                harness += r["harness"]
                n_harness += r["n_harness"]
                samples += r["samples"]
    except Exception:
        print("HARNESS-ERROR: worker pool failed:\n" + traceback.format_exc())
        return 2
    wall_runs = time.time() - t0

    # ---- classify violations ---------------------------------------------------------------
    known = load_known()
    by_sig = collections.OrderedDict()
    for entry in sorted(viols, key=lambda e: e["case"]["_run"]["index"]):
        for v in entry["violations"]:
            by_sig.setdefault(v["sig"], []).append((entry["case"], v))
    exit_code = 0
    lines = []
    n_known = n_new = 0
    confirmed = unconfirmed = 0
    report = []
    for sig, lst in by_sig.items():
        k = match_known(known, pid, sig)
        if k is not None:
            n_known += len(lst)
            print("KNOWN-FINDING: property=%s %s [%s] (%d occurrence(s) this run)" % (pid, k["description"], sig, len(lst)))
            report.append({"sig": sig, "known": True, "count": len(lst)})
            continue
        n_new += len(lst)
        if len([r for r in report if not r.get("known")]) >= 6:
            report.append({"sig": sig, "known": False, "count": len(lst), "replay": None})
            continue
        # smallest failing case first
        lst.sort(key=lambda cv: len(json.dumps(cv[0], default=str)))
        case, v = lst[0]
        small = minimise(mod, case, v["clause"], v["sig"], budget_s=cfg.get("min_budget", 45))
        # re-evaluate to get the message of the minimised case
        try:
            rr = guarded_check(mod, small, pid, run_timeout)
            vv = next((x.as_dict() for x in rr.violations if x.clause == v["clause"] and x.sig == v["sig"]), v)
        except (Exception, RunTimeout):
            vv = v
        path = write_replay(pid, small, vv)
        ok, outp = confirm_in_fresh_process(pid, path)
        if not ok and small is not case:
            # the minimised case does not reproduce in a fresh process (minimisation runs in this process, whose
            # module state may differ): fall back to the case as found
            os.remove(path)
            path = write_replay(pid, case, v)
            vv = v
            ok, outp = confirm_in_fresh_process(pid, path)
        if not ok:
            # history dependence: state leaked from earlier decodes in the worker process
            hp = history_replay(pid, case, v)
            if hp is not None:
                print("VIOLATION property=%s replay=%s" % (pid, hp))
                print("  clause=%s sig=%s occurrences=%d (depends on the decodes made before in the same process; history replay)" % (v["clause"], sig, len(lst)))
                print("  " + v["msg"][:1500].replace("\n", "\n  "))
                confirmed += 1
                report.append({"sig": sig, "known": False, "count": len(lst), "replay": hp, "reproduced": True, "history": True})
                continue
        if not ok:
            print("NOT-REPRODUCED: replay %s does not reproduce %s in a fresh process (neither the case nor the worker's history):\n%s" % (path, sig, outp[-600:]))
            unconfirmed += 1
            report.append({"sig": sig, "known": False, "count": len(lst), "replay": path, "reproduced": False})
            continue
        confirmed += 1
        print("VIOLATION property=%s replay=%s" % (pid, path))
        print("  clause=%s sig=%s occurrences=%d" % (vv["clause"], sig, len(lst)))
        print("  " + vv["msg"][:1500].replace("\n", "\n  "))
        report.append({"sig": sig, "known": False, "count": len(lst), "replay": path, "reproduced": True})
    if n_harness:
        print("HARNESS-ERROR: %d run(s) raised inside the machinery; first (run index %s, label %s):\n%s" % (n_harness, harness[0]["index"], ((harness[0].get("case") or {}).get("input") or {}).get("label"), harness[0]["error"][-3000:]))
    if unconfirmed:
        print("HARNESS-ERROR: %d violation signature(s) seen that do not reproduce from a replay file" % unconfirmed)
    if done == 0:
        print("HARNESS-ERROR: no run completed")
    if confirmed:
        exit_code = 1          # at least one violation with a replay that reproduces in a fresh process
    elif n_harness or unconfirmed or done == 0:
        exit_code = 2          # never a pass, never a violation

    wall = time.time() - t0
    if evidence:
        write_evidence(pid, mod, tier, base, done, n_total, agg, keys, scheds, ctxs, samples, report,
                       wall, wall_runs, jobs, n_new, n_known, exit_code)
    print("%s %s: runs=%d/%d wall=%.1fs distinct_nontrivial=%d interleavings=%d violations(new)=%d known=%d exit=%d"
          % (pid, tier, done, n_total, wall, len(keys), len(scheds), n_new, n_known, exit_code))
    return exit_code


def write_evidence(pid, mod, tier, base, done, n_total, agg, keys, scheds, ctxs, samples, report, wall,
                   wall_runs, jobs, n_new, n_known, exit_code):
    faults = {k[len("fault:"):]: v for k, v in sorted(agg.items()) if k.startswith("fault:")}
    probes = {k: v for k, v in sorted(agg.items()) if not k.startswith("fault:")}
    cov = {
        "evaluations": int(done),
        "distinct_nontrivial": int(len(keys)),
        "rule": mod.RULE,
        "samples": samples[:4] or [{"note": "no sample recorded"}],
        "runs_planned": n_total,
        "truncated_by_wall_budget": bool(agg.get("__truncated")),
        "runs_per_hour": int(done / max(wall_runs, 1e-6) * 3600),
        "simulated_time": {"scheduler_steps": int(agg.get("steps", 0)), "bytes_delivered": int(agg.get("bytes", 0)),
                           "note": "the code has no clock; simulated time is scheduler steps and bytes delivered"},
        "faults_fired": faults,
        "distinct_interleavings": len(scheds),
        "distinct_fault_contexts": len(ctxs),
        "probes": probes,
        "components": {
            "real": mod.REAL,
            "stub": ["TPM client/device (traffic generator + reference model)", "capture writers",
                     "byte sources / file objects", "seeded scheduler"],
        },
        "violation_report": report,
        "workers": jobs,
    }
    ev = {
        "property_id": pid,
        "tier": tier,
        "seed": base,
        "level": mod.LEVEL,
        "coverage": cov,
        "assumptions": mod.ASSUMPTIONS,
        "wall_s": round(wall, 2),
        "violations": int(n_new),
        "known_findings_hit": int(n_known),
        "exit_code": exit_code,
    }
    os.makedirs(os.path.join(VERIF, "evidence"), exist_ok=True)
    path = os.path.join(VERIF, "evidence", pid + ".json")
    tmp = path + ".tmp"
    with open(tmp, "w") as f:
        json.dump(ev, f, indent=1, sort_keys=True, default=str)
    os.replace(tmp, path)

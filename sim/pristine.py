"""Fresh-interpreter reference: decodes task specs (JSON list on stdin) one after the other in a process that has decoded
nothing else, and prints their comparable results.  Used by C12: "no matter which other inputs were decoded before" is
compared against a process with no 'before' at all."""
import json
import sys


def summarise(t):
    out = [t.items, list(t.outcome())]
    if t.spec.get("consumer"):
        import re
        ansi = re.compile(r"\x1b\[[0-9;]*m")
        out.append([ansi.sub("", o).split() if isinstance(o, str) else bytes(o).hex() for o in t.out])
        out.append(None if t.exc is None else [type(t.exc).__name__, bool(t.decoder_raised)])
    return json.loads(json.dumps(out, default=str))


def main():
    from sim.world import Task
    specs = json.load(sys.stdin)
    if isinstance(specs, dict) and "threads" in specs:
        from sim import threads
        json.dump(threads.run(specs["specs"], specs["threads"], mean_gap=specs.get("gap", 40), concat=specs.get("concat")), sys.stdout)
        return
    out = []
    for s in specs:
        s = dict(s, source="bytes")
        s.pop("cancel_at", None)
        out.append(summarise(Task(s).run()))
    json.dump(out, sys.stdout)


def run_threads(specs, seed, gap=40, concat=None, timeout=900):
    """the specs decoded concurrently in OS threads of a fresh interpreter under a seeded line-level schedule (sim/threads.py)"""
    return run_fresh({"specs": specs, "threads": seed, "gap": gap, "concat": concat}, timeout=timeout)


def run_fresh(specs, timeout=600, optimize=False, env_extra=None):
    """-> list of [items, outcome] as decoded by a fresh interpreter (optimize: started with -O, i.e. asserts stripped -
    PYTHONOPTIMIZE is a common production setting)"""
    import os
    import subprocess
    verif = os.path.dirname(os.path.dirname(os.path.abspath(__file__)))
    src = os.environ.get("VERIF_REPO_SRC", "/repo/src")
    env = dict(os.environ, PYTHONPATH=src + os.pathsep + verif, PYTHONDONTWRITEBYTECODE="1", PYTHONHASHSEED="0")
    env.update(env_extra or {})
    p = subprocess.run([sys.executable] + (["-O"] if optimize else []) + ["-c", "import sim.pristine as p; p.main()"], input=json.dumps(specs).encode(),
                       capture_output=True, env=env, timeout=timeout, cwd="/")
    if p.returncode != 0:
        raise RuntimeError("fresh interpreter failed: %s" % p.stderr.decode()[-500:])
    return json.loads(p.stdout.decode())


if __name__ == "__main__":
    main()
